// ---- shim tokio::sync::mpsc (trusted): unbounded channels are FIFO and lossless.
// A receiver's view is the PROPHECY sequence of all items that will be delivered before the
// channel closes; recv() returns None only when that sequence is exhausted (closed and empty).
pub mod mpsc {
    use super::*;
    #[verifier::external_body]
    #[verifier::reject_recursive_types(T)]
    pub struct UnboundedReceiver<T> { q: Vec<T> }
    #[verifier::external_body]
    #[verifier::reject_recursive_types(T)]
    pub struct UnboundedSender<T> { q: Vec<T> }

    impl<T> UnboundedReceiver<T> {
        pub uninterp spec fn chan(&self) -> int;
    }
    impl<T: View> UnboundedReceiver<T> {
        pub uninterp spec fn view(&self) -> Seq<T::V>;
        // current queue state; if the channel is closed AND empty nothing will ever be delivered any more
        pub uninterp spec fn closed_now(&self) -> bool;
        pub uninterp spec fn empty_now(&self) -> bool;
        #[verifier::external_body]
        pub fn is_closed(&self) -> (r: bool) ensures r == self.closed_now(), (self.closed_now() && self.empty_now()) ==> self@.len() == 0 { unimplemented!() }
        #[verifier::external_body]
        pub fn is_empty(&self) -> (r: bool) ensures r == self.empty_now(), (self.closed_now() && self.empty_now()) ==> self@.len() == 0, self@.len() == 0 ==> true { unimplemented!() }
        #[verifier::external_body]
        pub fn recv(&mut self) -> (r: Option<T>)
            ensures
                final(self).chan() == old(self).chan(),
                match r {
                    Some(d) => old(self)@.len() > 0 && d@ == old(self)@[0] && final(self)@ == old(self)@.drop_first(),
                    None => old(self)@.len() == 0 && final(self)@ == old(self)@,
                }
        { unimplemented!() }
    }
    impl<T> UnboundedSender<T> {
        pub uninterp spec fn chan(&self) -> int;
        pub uninterp spec fn is_open(&self) -> bool;
    }
    pub mod error { pub struct SendError<T>(pub T); }
    #[verifier::external_body]
    pub fn unbounded_channel<T>() -> (r: (UnboundedSender<T>, UnboundedReceiver<T>))
        ensures r.0.chan() == r.1.chan()
    { unimplemented!() }
    impl<T> Clone for UnboundedSender<T> {
        #[verifier::external_body]
        fn clone(&self) -> (r: Self) ensures r.chan() == self.chan(), r.is_open() == self.is_open() { unimplemented!() }
    }
}
pub broadcast proof fn lemma_flatten_first(q: Seq<Seq<u8>>)
    requires q.len() > 0
    ensures #[trigger] q.flatten() == q[0] + q.drop_first().flatten()
{ broadcast use vstd::seq_lib::group_seq_properties; reveal_with_fuel(Seq::flatten, 2); }

pub broadcast proof fn lemma_flatten_empty(q: Seq<Seq<u8>>)
    requires q.len() == 0
    ensures #[trigger] q.flatten() == Seq::<u8>::empty()
{ reveal_with_fuel(Seq::flatten, 2); }
