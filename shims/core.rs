// ---- shim core: std items the extracted code refers to (trusted; see DESIGN.md 2.3) ----
// big-endian helpers used by specs of bytes/std shims (bit-vector definitions; inverse lemmas are proved in spec/wire.rs)
pub open spec fn be16(n: u16) -> Seq<u8> { seq![(n >> 8) as u8, (n & 0xff) as u8] }
pub open spec fn be32(n: u32) -> Seq<u8> { seq![(n >> 24) as u8, ((n >> 16) & 0xff) as u8, ((n >> 8) & 0xff) as u8, (n & 0xff) as u8] }
pub open spec fn de16(s: Seq<u8>) -> u16 { ((s[0] as u16) << 8 | (s[1] as u16)) as u16 }
pub open spec fn de32(s: Seq<u8>) -> u32 { ((s[0] as u32) << 24 | (s[1] as u32) << 16 | (s[2] as u32) << 8 | (s[3] as u32)) as u32 }
pub open spec fn zeros(n: nat) -> Seq<u8> { Seq::new(n, |i: int| 0u8) }

#[verifier::external_body]
pub fn vx_min(a: usize, b: usize) -> (r: usize)
    ensures r == (if a <= b { a } else { b })
{ std::cmp::min(a, b) }

#[verifier::external_body]
pub fn vx_drain_to(v: &mut Vec<u8>, n: usize)
    requires n <= old(v)@.len()
    ensures final(v)@ == old(v)@.subrange(n as int, old(v)@.len() as int)
{ v.drain(..n); }

#[verifier::external_body]
pub fn vx_u16_from_be_bytes(b: [u8; 2]) -> (r: u16)
    ensures r == de16(b@)
{ u16::from_be_bytes(b) }

pub trait VxToBe16 { fn vx_to_be_bytes(self) -> [u8; 2]; }
impl VxToBe16 for u16 {
    #[verifier::external_body]
    fn vx_to_be_bytes(self) -> (r: [u8; 2])
        ensures r@ == be16(self)
    { self.to_be_bytes() }
}

// array equality on [u8; N] is element-wise (std guarantee; vstd leaves PartialEq on arrays uninterpreted)
pub broadcast axiom fn axiom_array_u8_eq<const N: usize>(a: [u8; N], b: [u8; N])
    ensures #[trigger] vstd::std_specs::cmp::PartialEqSpec::eq_spec(&a, &b) == (a@ == b@);

pub assume_specification<'a, T: Copy>[Option::<&'a T>::copied](o: Option<&'a T>) -> (r: Option<T>)
    ensures r == (match o { Some(x) => Some(*x), None => None::<T> });

// opaque string helpers (message texts are in no property)
#[verifier::external_body]
pub fn vx_string_from(s: &str) -> (r: String) { s.to_string() }
#[verifier::external_body]
pub fn vx_lossy_string(b: &[u8]) -> (r: String) { String::new() }
pub uninterp spec fn str_contains_spec(s: Seq<char>, p: Seq<char>) -> bool;
pub uninterp spec fn str_ends_with_spec(s: Seq<char>, p: Seq<char>) -> bool;
pub uninterp spec fn str_starts_with_spec(s: Seq<char>, p: Seq<char>) -> bool;
#[verifier::external_body]
pub fn vx_str_ends_with(s: &String, p: &str) -> (r: bool) ensures r == str_ends_with_spec(s@, p@) { s.ends_with(p) }
#[verifier::external_body]
pub fn vx_str_starts_with(s: &String, p: &str) -> (r: bool) ensures r == str_starts_with_spec(s@, p@) { s.starts_with(p) }
#[verifier::external_body]
pub fn vx_str_eq(s: &String, t: &str) -> (r: bool) ensures r == (s@ == t@) { s.as_str() == t }
#[verifier::external_body]
pub fn vx_str_contains(s: &String, pat: &str) -> (r: bool) ensures r == str_contains_spec(s@, pat@) { s.contains(pat) }
// format! whose format string has literal text outside the placeholders: the result is never empty
#[verifier::external_body]
pub fn vx_fmt_nonempty() -> (r: String) ensures r@.len() > 0 { String::from("x") }

pub assume_specification<T>[Option::<T>::replace](o: &mut Option<T>, v: T) -> (r: Option<T>)
    ensures r == *old(o), *final(o) == Some(v);

// std::str::from_utf8: Ok exactly for valid UTF-8; the text is empty exactly when the bytes are
#[verifier::external_type_specification]
#[verifier::external_body]
pub struct ExUtf8Error(core::str::Utf8Error);
pub uninterp spec fn vx_is_utf8(b: Seq<u8>) -> bool;
pub assume_specification<'a> [core::str::from_utf8] (v: &'a [u8]) -> (r: std::result::Result<&'a str, core::str::Utf8Error>)
    ensures r is Ok <==> vx_is_utf8(v@), r is Ok ==> (r->Ok_0@.len() == 0 <==> v@.len() == 0), v@.len() == 0 ==> r is Ok;

// Option::is_some_and with a closure is outside the verifiable subset; rule R rewrites `X.is_some_and(|v| v.m())` to a match

// std::time::Duration constructors (values are only passed along to timers)
pub assume_specification [core::time::Duration::from_secs] (secs: u64) -> (r: core::time::Duration);
pub assume_specification [core::time::Duration::from_millis] (ms: u64) -> (r: core::time::Duration);

// std::mem::take: the old value is returned (what is left behind is T::default(), not specified here)
pub assume_specification<T: Default> [core::mem::take::<T>] (dest: &mut T) -> (r: T)
    ensures r == *old(dest);

// std's lossless integer conversions `T::from(x)` / `x.into()` (impl From<S> for T): the value is `x as T` (vstd leaves these unspecified,
// so without the axioms the result of `i32::from(u16::MAX)` is an arbitrary number and a harmless refactoring fails its postconditions)
pub broadcast axiom fn axiom_from_u8_u16() ensures #[trigger] <u16 as vstd::std_specs::convert::FromSpec<u8>>::obeys_from_spec(), forall|v: u8| #[trigger] <u16 as vstd::std_specs::convert::FromSpec<u8>>::from_spec(v) == v as u16;
pub broadcast axiom fn axiom_from_u8_u32() ensures #[trigger] <u32 as vstd::std_specs::convert::FromSpec<u8>>::obeys_from_spec(), forall|v: u8| #[trigger] <u32 as vstd::std_specs::convert::FromSpec<u8>>::from_spec(v) == v as u32;
pub broadcast axiom fn axiom_from_u8_u64() ensures #[trigger] <u64 as vstd::std_specs::convert::FromSpec<u8>>::obeys_from_spec(), forall|v: u8| #[trigger] <u64 as vstd::std_specs::convert::FromSpec<u8>>::from_spec(v) == v as u64;
pub broadcast axiom fn axiom_from_u8_u128() ensures #[trigger] <u128 as vstd::std_specs::convert::FromSpec<u8>>::obeys_from_spec(), forall|v: u8| #[trigger] <u128 as vstd::std_specs::convert::FromSpec<u8>>::from_spec(v) == v as u128;
pub broadcast axiom fn axiom_from_u8_i16() ensures #[trigger] <i16 as vstd::std_specs::convert::FromSpec<u8>>::obeys_from_spec(), forall|v: u8| #[trigger] <i16 as vstd::std_specs::convert::FromSpec<u8>>::from_spec(v) == v as i16;
pub broadcast axiom fn axiom_from_u8_i32() ensures #[trigger] <i32 as vstd::std_specs::convert::FromSpec<u8>>::obeys_from_spec(), forall|v: u8| #[trigger] <i32 as vstd::std_specs::convert::FromSpec<u8>>::from_spec(v) == v as i32;
pub broadcast axiom fn axiom_from_u8_i64() ensures #[trigger] <i64 as vstd::std_specs::convert::FromSpec<u8>>::obeys_from_spec(), forall|v: u8| #[trigger] <i64 as vstd::std_specs::convert::FromSpec<u8>>::from_spec(v) == v as i64;
pub broadcast axiom fn axiom_from_u8_i128() ensures #[trigger] <i128 as vstd::std_specs::convert::FromSpec<u8>>::obeys_from_spec(), forall|v: u8| #[trigger] <i128 as vstd::std_specs::convert::FromSpec<u8>>::from_spec(v) == v as i128;
pub broadcast axiom fn axiom_from_u16_u32() ensures #[trigger] <u32 as vstd::std_specs::convert::FromSpec<u16>>::obeys_from_spec(), forall|v: u16| #[trigger] <u32 as vstd::std_specs::convert::FromSpec<u16>>::from_spec(v) == v as u32;
pub broadcast axiom fn axiom_from_u16_u64() ensures #[trigger] <u64 as vstd::std_specs::convert::FromSpec<u16>>::obeys_from_spec(), forall|v: u16| #[trigger] <u64 as vstd::std_specs::convert::FromSpec<u16>>::from_spec(v) == v as u64;
pub broadcast axiom fn axiom_from_u16_u128() ensures #[trigger] <u128 as vstd::std_specs::convert::FromSpec<u16>>::obeys_from_spec(), forall|v: u16| #[trigger] <u128 as vstd::std_specs::convert::FromSpec<u16>>::from_spec(v) == v as u128;
pub broadcast axiom fn axiom_from_u16_i32() ensures #[trigger] <i32 as vstd::std_specs::convert::FromSpec<u16>>::obeys_from_spec(), forall|v: u16| #[trigger] <i32 as vstd::std_specs::convert::FromSpec<u16>>::from_spec(v) == v as i32;
pub broadcast axiom fn axiom_from_u16_i64() ensures #[trigger] <i64 as vstd::std_specs::convert::FromSpec<u16>>::obeys_from_spec(), forall|v: u16| #[trigger] <i64 as vstd::std_specs::convert::FromSpec<u16>>::from_spec(v) == v as i64;
pub broadcast axiom fn axiom_from_u16_i128() ensures #[trigger] <i128 as vstd::std_specs::convert::FromSpec<u16>>::obeys_from_spec(), forall|v: u16| #[trigger] <i128 as vstd::std_specs::convert::FromSpec<u16>>::from_spec(v) == v as i128;
pub broadcast axiom fn axiom_from_u32_u64() ensures #[trigger] <u64 as vstd::std_specs::convert::FromSpec<u32>>::obeys_from_spec(), forall|v: u32| #[trigger] <u64 as vstd::std_specs::convert::FromSpec<u32>>::from_spec(v) == v as u64;
pub broadcast axiom fn axiom_from_u32_u128() ensures #[trigger] <u128 as vstd::std_specs::convert::FromSpec<u32>>::obeys_from_spec(), forall|v: u32| #[trigger] <u128 as vstd::std_specs::convert::FromSpec<u32>>::from_spec(v) == v as u128;
pub broadcast axiom fn axiom_from_u32_i64() ensures #[trigger] <i64 as vstd::std_specs::convert::FromSpec<u32>>::obeys_from_spec(), forall|v: u32| #[trigger] <i64 as vstd::std_specs::convert::FromSpec<u32>>::from_spec(v) == v as i64;
pub broadcast axiom fn axiom_from_u32_i128() ensures #[trigger] <i128 as vstd::std_specs::convert::FromSpec<u32>>::obeys_from_spec(), forall|v: u32| #[trigger] <i128 as vstd::std_specs::convert::FromSpec<u32>>::from_spec(v) == v as i128;
pub broadcast axiom fn axiom_from_u64_u128() ensures #[trigger] <u128 as vstd::std_specs::convert::FromSpec<u64>>::obeys_from_spec(), forall|v: u64| #[trigger] <u128 as vstd::std_specs::convert::FromSpec<u64>>::from_spec(v) == v as u128;
pub broadcast axiom fn axiom_from_u64_i128() ensures #[trigger] <i128 as vstd::std_specs::convert::FromSpec<u64>>::obeys_from_spec(), forall|v: u64| #[trigger] <i128 as vstd::std_specs::convert::FromSpec<u64>>::from_spec(v) == v as i128;
pub broadcast axiom fn axiom_from_i8_i16() ensures #[trigger] <i16 as vstd::std_specs::convert::FromSpec<i8>>::obeys_from_spec(), forall|v: i8| #[trigger] <i16 as vstd::std_specs::convert::FromSpec<i8>>::from_spec(v) == v as i16;
pub broadcast axiom fn axiom_from_i8_i32() ensures #[trigger] <i32 as vstd::std_specs::convert::FromSpec<i8>>::obeys_from_spec(), forall|v: i8| #[trigger] <i32 as vstd::std_specs::convert::FromSpec<i8>>::from_spec(v) == v as i32;
pub broadcast axiom fn axiom_from_i8_i64() ensures #[trigger] <i64 as vstd::std_specs::convert::FromSpec<i8>>::obeys_from_spec(), forall|v: i8| #[trigger] <i64 as vstd::std_specs::convert::FromSpec<i8>>::from_spec(v) == v as i64;
pub broadcast axiom fn axiom_from_i8_i128() ensures #[trigger] <i128 as vstd::std_specs::convert::FromSpec<i8>>::obeys_from_spec(), forall|v: i8| #[trigger] <i128 as vstd::std_specs::convert::FromSpec<i8>>::from_spec(v) == v as i128;
pub broadcast axiom fn axiom_from_i16_i32() ensures #[trigger] <i32 as vstd::std_specs::convert::FromSpec<i16>>::obeys_from_spec(), forall|v: i16| #[trigger] <i32 as vstd::std_specs::convert::FromSpec<i16>>::from_spec(v) == v as i32;
pub broadcast axiom fn axiom_from_i16_i64() ensures #[trigger] <i64 as vstd::std_specs::convert::FromSpec<i16>>::obeys_from_spec(), forall|v: i16| #[trigger] <i64 as vstd::std_specs::convert::FromSpec<i16>>::from_spec(v) == v as i64;
pub broadcast axiom fn axiom_from_i16_i128() ensures #[trigger] <i128 as vstd::std_specs::convert::FromSpec<i16>>::obeys_from_spec(), forall|v: i16| #[trigger] <i128 as vstd::std_specs::convert::FromSpec<i16>>::from_spec(v) == v as i128;
pub broadcast axiom fn axiom_from_i32_i64() ensures #[trigger] <i64 as vstd::std_specs::convert::FromSpec<i32>>::obeys_from_spec(), forall|v: i32| #[trigger] <i64 as vstd::std_specs::convert::FromSpec<i32>>::from_spec(v) == v as i64;
pub broadcast axiom fn axiom_from_i32_i128() ensures #[trigger] <i128 as vstd::std_specs::convert::FromSpec<i32>>::obeys_from_spec(), forall|v: i32| #[trigger] <i128 as vstd::std_specs::convert::FromSpec<i32>>::from_spec(v) == v as i128;
pub broadcast axiom fn axiom_from_i64_i128() ensures #[trigger] <i128 as vstd::std_specs::convert::FromSpec<i64>>::obeys_from_spec(), forall|v: i64| #[trigger] <i128 as vstd::std_specs::convert::FromSpec<i64>>::from_spec(v) == v as i128;
pub broadcast axiom fn axiom_from_u8_usize() ensures #[trigger] <usize as vstd::std_specs::convert::FromSpec<u8>>::obeys_from_spec(), forall|v: u8| #[trigger] <usize as vstd::std_specs::convert::FromSpec<u8>>::from_spec(v) == v as usize;
pub broadcast axiom fn axiom_from_u16_usize() ensures #[trigger] <usize as vstd::std_specs::convert::FromSpec<u16>>::obeys_from_spec(), forall|v: u16| #[trigger] <usize as vstd::std_specs::convert::FromSpec<u16>>::from_spec(v) == v as usize;
pub broadcast axiom fn axiom_from_u8_isize() ensures #[trigger] <isize as vstd::std_specs::convert::FromSpec<u8>>::obeys_from_spec(), forall|v: u8| #[trigger] <isize as vstd::std_specs::convert::FromSpec<u8>>::from_spec(v) == v as isize;
pub broadcast axiom fn axiom_from_i8_isize() ensures #[trigger] <isize as vstd::std_specs::convert::FromSpec<i8>>::obeys_from_spec(), forall|v: i8| #[trigger] <isize as vstd::std_specs::convert::FromSpec<i8>>::from_spec(v) == v as isize;
pub broadcast axiom fn axiom_from_i16_isize() ensures #[trigger] <isize as vstd::std_specs::convert::FromSpec<i16>>::obeys_from_spec(), forall|v: i16| #[trigger] <isize as vstd::std_specs::convert::FromSpec<i16>>::from_spec(v) == v as isize;
pub broadcast group group_int_from { axiom_from_u8_u16, axiom_from_u8_u32, axiom_from_u8_u64, axiom_from_u8_u128, axiom_from_u8_i16, axiom_from_u8_i32, axiom_from_u8_i64, axiom_from_u8_i128, axiom_from_u16_u32, axiom_from_u16_u64, axiom_from_u16_u128, axiom_from_u16_i32, axiom_from_u16_i64, axiom_from_u16_i128, axiom_from_u32_u64, axiom_from_u32_u128, axiom_from_u32_i64, axiom_from_u32_i128, axiom_from_u64_u128, axiom_from_u64_i128, axiom_from_i8_i16, axiom_from_i8_i32, axiom_from_i8_i64, axiom_from_i8_i128, axiom_from_i16_i32, axiom_from_i16_i64, axiom_from_i16_i128, axiom_from_i32_i64, axiom_from_i32_i128, axiom_from_i64_i128, axiom_from_u8_usize, axiom_from_u16_usize, axiom_from_u8_isize, axiom_from_i8_isize, axiom_from_i16_isize }
