//! F-C18-a  cert_analyzer.vx_block_days.an_expired_certificate_has_negative_days
//! a certificate that expired one hour ago must be reported expired, and a reload onto it (check_expiry on) must fail
use anytls_rs::util::{CertReloader, CertReloaderConfig, CertificateInfo};
use std::io::Write;

fn pair(not_after_offset_secs: i64) -> (String, String) {
    let mut params = rcgen::CertificateParams::new(vec!["localhost".to_string()]).unwrap();
    params.not_before = time::OffsetDateTime::now_utc() - time::Duration::days(30);
    params.not_after = time::OffsetDateTime::now_utc() + time::Duration::seconds(not_after_offset_secs);
    let key = rcgen::KeyPair::generate().unwrap();
    let cert = params.self_signed(&key).unwrap();
    (cert.pem(), key.serialize_pem())
}

#[test]
fn f_c18_a_certificate_expired_an_hour_ago_is_expired() {
    let (cert_pem, _key_pem) = pair(-3600);
    let info = CertificateInfo::from_pem_bytes(cert_pem.as_bytes()).unwrap();
    assert!(info.is_expired(), "a certificate whose notAfter lies one hour in the past is reported as NOT expired (days_until_expiry = {})", info.days_until_expiry);
}

#[tokio::test]
async fn f_c18_a_reload_onto_a_certificate_expired_an_hour_ago_fails() {
    let dir = tempfile::tempdir().unwrap();
    let (c1, k1) = pair(86400 * 30);
    let cp = dir.path().join("cert.pem");
    let kp = dir.path().join("key.pem");
    std::fs::File::create(&cp).unwrap().write_all(c1.as_bytes()).unwrap();
    std::fs::File::create(&kp).unwrap().write_all(k1.as_bytes()).unwrap();
    let cfg = CertReloaderConfig { cert_path: cp.clone(), key_path: kp.clone(), watch_enabled: false, check_expiry: true, ..Default::default() };
    let reloader = CertReloader::new(cfg).unwrap();
    let (c2, k2) = pair(-3600);
    std::fs::File::create(&cp).unwrap().write_all(c2.as_bytes()).unwrap();
    std::fs::File::create(&kp).unwrap().write_all(k2.as_bytes()).unwrap();
    let r = reloader.reload();
    assert!(r.is_err(), "reload onto a certificate that expired an hour ago succeeded although expiry checking is on");
    assert_eq!(reloader.get_reload_count(), 0);
}
