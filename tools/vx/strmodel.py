"""Rule S (string model), enabled per item with `@opt strmodel=1`.

Verus cannot reason about `str`/`String` at the byte level (char-boundary panics, byte offsets returned by find/rfind,
slicing by byte ranges).  For the text-processing functions of the HTTP front-end the extracted text is therefore
re-typed onto the shim type `VStr` (shims/str_env.rs: a string as its UTF-8 byte sequence), by these token rewrites,
each of which is exact with respect to the trusted byte-level contracts of the shim:

  S1  types            &str -> &VStr,  String -> VStr        (deref coercions String -> &str disappear: one type)
  S2  string literals  "abc" -> vx_lit(&[97u8, 98u8, 99u8])  (its UTF-8 bytes);   b"ab" -> &[97u8, 98u8]
                       (`"lit".into()` is left to the general table: error payloads stay real Strings)
  S3  char arguments   X.m('c') -> X.m_c(99u8)               (ASCII only; str methods are generic over Pattern)
  S4  byte-range slices  [&]X[a..b] -> X.vx_slice(a, b),  [&]X[a..] -> X.vx_slice_from(a),  [&]X[..b] -> X.vx_slice_to(b)
                       (the shim methods REQUIRE in-range char boundaries: the panics of str indexing become obligations)
  S5  format!("p0{}p1{}p2", a, b) -> vx_lit(p0).vx_cat(&(a).vx_disp()).vx_cat(vx_lit(p1))...   (only `{}` placeholders)
  S6  X.parse::<u16>() -> X.vx_parse_u16()
  S7  iterator idioms over pieces of a string, recognised syntactically:
        IT.map(|v| v.to_string())      -> IT.vx_map_to_string()       (same pieces, owned)
        IT.filter(|v| !v.is_empty())   -> IT.vx_filter_nonempty()     (the non-empty pieces, in order)
        IT.collect()                   -> IT.vx_collect()             (a Vec of the pieces, in order)
"""
import re

from .tok import Tok, match_close, texts, is_p, is_id, OPEN, CLOSE
from .extract import Undecided, _expr_start, _w
from .tok import toks_of as _toks_of


def toks_of(text, ws=None):
    t = _toks_of(text)
    if ws is not None and t:
        t[0] = _w(t[0], ws)
    return t


def _decode(lit):
    """UTF-8 bytes of a Rust (byte) string literal token"""
    is_bytes = lit.startswith("b")
    body = lit[2:-1] if is_bytes else lit[1:-1]
    if lit.startswith("r") or lit.startswith("br"):
        raise Undecided("raw string literal in a strmodel item")
    out = bytearray()
    i = 0
    while i < len(body):
        c = body[i]
        if c != "\\":
            out += c.encode("utf-8")
            i += 1
            continue
        e = body[i + 1]
        simple = {"n": 10, "r": 13, "t": 9, "\\": 92, "0": 0, '"': 34, "'": 39}
        if e in simple:
            out.append(simple[e])
            i += 2
        elif e == "x":
            out.append(int(body[i + 2:i + 4], 16))
            i += 4
        elif e == "u":
            j = body.index("}", i)
            out += chr(int(body[i + 3:j].replace("_", ""), 16)).encode("utf-8")
            i = j + 1
        elif e == "\n":
            i += 2
            while i < len(body) and body[i] in " \t\r\n":
                i += 1
        else:
            raise Undecided(f"escape \\{e} in string literal")
    return bytes(out)


def _bytes_array(bs, ws):
    if not bs:
        return toks_of("&[0u8; 0]", ws)
    return toks_of("&[" + ", ".join(f"{b}u8" for b in bs) + "]", ws)


def _lit_call(bs, ws):
    t = toks_of("vx_lit(", ws) + _bytes_array(bs, "") + [Tok("p", ")", "")]
    return t


def _split_args(toks):
    """split a token list at top-level commas"""
    parts, cur, depth = [], [], 0
    for t in toks:
        if t.kind == "p" and t.text in OPEN:
            depth += 1
        elif t.kind == "p" and t.text in CLOSE:
            depth -= 1
        if depth == 0 and is_p(t, ","):
            parts.append(cur)
            cur = []
            continue
        cur.append(t)
    if cur:
        parts.append(cur)
    return parts


def _format(toks, i, au):
    """toks[i] == format, toks[i+1] == !, toks[i+2] opens; returns (replacement tokens, index after)"""
    k = match_close(toks, i + 2)
    args = _split_args(toks[i + 3:k])
    if not args or len(args[0]) != 1 or args[0][0].kind != "str":
        raise Undecided("format! without a literal format string")
    fmt = _decode(args[0][0].text)
    if b"{{" in fmt or b"}}" in fmt:
        raise Undecided("format! with escaped braces")
    pieces = fmt.split(b"{}")
    if b"{" in b"".join(pieces) or b"}" in b"".join(pieces):
        raise Undecided("format! placeholder other than {}")
    if len(pieces) - 1 != len(args) - 1:
        raise Undecided("format! placeholder/argument count")
    au.note("S", f"format!({args[0][0].text}, ..) -> concatenation of {len(pieces)} literal piece(s) and {len(args) - 1} displayed argument(s)")
    out = _lit_call(pieces[0], toks[i].ws)
    for q, a in enumerate(args[1:]):
        a = apply(list(a), au, inner=True)
        out += toks_of(".vx_cat(&(") + [_w(x, "" if z == 0 else x.ws) for z, x in enumerate(a)] + toks_of(").vx_disp())")
        if pieces[q + 1]:
            out += toks_of(".vx_cat(") + _lit_call(pieces[q + 1], "") + [Tok("p", ")", "")]
    return out, k + 1


def apply(toks, au, inner=False):
    out, i, n = [], 0, len(toks)
    while i < n:
        t = toks[i]
        # S5 format!
        if is_id(t, "format") and i + 2 < n and is_p(toks[i + 1], "!") and toks[i + 2].text in OPEN:
            rep, i = _format(toks, i, au)
            out += rep
            continue
        # S6 parse::<u16>()
        if is_p(t, ".") and i + 8 < n and is_id(toks[i + 1], "parse") and texts(toks, i + 2, 7) == [":", ":", "<", "u16", ">", "(", ")"]:
            au.note("S", "X.parse::<u16>() -> X.vx_parse_u16()")
            out += [t, Tok("id", "vx_parse_u16", ""), Tok("p", "(", ""), Tok("p", ")", "")]
            i += 9
            continue
        # S7 iterator idioms
        if is_p(t, ".") and i + 2 < n and toks[i + 1].kind == "id" and toks[i + 1].text in ("map", "filter") and is_p(toks[i + 2], "("):
            k = match_close(toks, i + 2)
            arg = [x.text for x in toks[i + 3:k]]
            if toks[i + 1].text == "map" and len(arg) == 8 and arg[0] == "|" and arg[2] == "|" and arg[3] == arg[1] and arg[4:] == [".", "to_string", "(", ")"]:
                au.note("S", ".map(|v| v.to_string()) -> .vx_map_to_string()")
                out += [t, Tok("id", "vx_map_to_string", ""), Tok("p", "(", ""), Tok("p", ")", "")]
                i = k + 1
                continue
            if toks[i + 1].text == "filter" and len(arg) == 9 and arg[0] == "|" and arg[2] == "|" and arg[3] == "!" and arg[4] == arg[1] and arg[5:] == [".", "is_empty", "(", ")"]:
                au.note("S", ".filter(|v| !v.is_empty()) -> .vx_filter_nonempty()")
                out += [t, Tok("id", "vx_filter_nonempty", ""), Tok("p", "(", ""), Tok("p", ")", "")]
                i = k + 1
                continue
        if is_p(t, ".") and i + 3 < n and is_id(toks[i + 1], "collect") and is_p(toks[i + 2], "(") and is_p(toks[i + 3], ")"):
            au.note("S", ".collect() -> .vx_collect()")
            out += [t, Tok("id", "vx_collect", ""), Tok("p", "(", ""), Tok("p", ")", "")]
            i += 4
            continue
        # S3 char argument
        if is_p(t, ".") and i + 4 < n and toks[i + 1].kind == "id" and is_p(toks[i + 2], "(") and toks[i + 3].kind == "char" and is_p(toks[i + 4], ")"):
            ch = toks[i + 3].text
            m = re.fullmatch(r"'(\\?.)'", ch)
            if not m:
                raise Undecided(f"char literal {ch} as a pattern")
            c = m.group(1)
            code = {"\\n": 10, "\\r": 13, "\\t": 9, "\\\\": 92, "\\'": 39, "\\0": 0}.get(c, ord(c[-1]) if len(c) == 1 else None)
            if code is None or code >= 128:
                raise Undecided(f"non-ASCII char pattern {ch}")
            au.note("S", f".{toks[i+1].text}({ch}) -> .{toks[i+1].text}_c({code}u8)")
            out += [t, Tok("id", toks[i + 1].text + "_c", ""), Tok("p", "(", ""), Tok("num", f"{code}u8", ""), Tok("p", ")", "")]
            i += 5
            continue
        # S4 byte-range slices
        if is_p(t, "[") and out and (out[-1].kind == "id" or (out[-1].kind == "p" and out[-1].text in (")", "]"))) \
                and not (out[-1].kind == "id" and out[-1].text in ("vec", "mut", "in", "return", "let")):
            k = match_close(toks, i)
            inner_t = toks[i + 1:k]
            # top-level `..`
            z, depth = None, 0
            for q in range(len(inner_t) - 1):
                x = inner_t[q]
                if x.kind == "p" and x.text in OPEN:
                    depth += 1
                elif x.kind == "p" and x.text in CLOSE:
                    depth -= 1
                elif depth == 0 and is_p(x, ".") and is_p(inner_t[q + 1], ".") and inner_t[q + 1].ws == "":
                    z = q
                    break
            if z is None and len(inner_t) == 2 and is_p(inner_t[0], ".") and is_p(inner_t[1], "."):
                z = 0
            if z is not None:
                lo, hi = inner_t[:z], inner_t[z + 2:]
                if hi and is_p(hi[0], "="):
                    raise Undecided("inclusive range slice")
                s = _expr_start(out)
                recv = out[s:]
                ws0 = recv[0].ws
                del out[s:]
                if out and is_p(out[-1], "&") and not (len(out) > 1 and is_p(out[-2], "&") and out[-1].ws == "") and not (len(out) > 1 and (out[-2].kind in ("id", "num") and out[-2].text not in ("return", "in", "else", "match", "if") or out[-2].text in (")", "]"))):
                    ws0 = out[-1].ws
                    out.pop()
                recv = [_w(recv[0], ws0)] + recv[1:]
                lo = apply(list(lo), au, inner=True)
                hi = apply(list(hi), au, inner=True)
                strip = lambda ts: [_w(x, "" if q == 0 else x.ws) for q, x in enumerate(ts)]
                if lo and hi:
                    au.note("S", "X[a..b] -> X.vx_slice(a, b)")
                    out += recv + toks_of(".vx_slice(") + strip(lo) + [Tok("p", ",", "")] + [_w(x, " " if q == 0 else x.ws) for q, x in enumerate(hi)] + [Tok("p", ")", "")]
                elif lo:
                    au.note("S", "X[a..] -> X.vx_slice_from(a)")
                    out += recv + toks_of(".vx_slice_from(") + strip(lo) + [Tok("p", ")", "")]
                elif hi:
                    au.note("S", "X[..b] -> X.vx_slice_to(b)")
                    out += recv + toks_of(".vx_slice_to(") + strip(hi) + [Tok("p", ")", "")]
                else:
                    out += recv
                i = k + 1
                continue
        # S2 literals
        if t.kind == "str":
            if texts(toks, i + 1, 4) == [".", "into", "(", ")"]:
                out.append(t)
                i += 1
                continue
            bs = _decode(t.text)
            if t.text.startswith("b"):
                au.note("S", f"{t.text} -> byte array")
                out += _bytes_array(bs, t.ws)
            else:
                au.note("S", f"{t.text} -> vx_lit(its UTF-8 bytes)")
                out += _lit_call(bs, t.ws)
            i += 1
            continue
        # S1 types
        if is_id(t, "str") and out and (is_p(out[-1], "&") or out[-1].kind == "life"):
            au.note("S", "&str -> &VStr")
            out.append(Tok("id", "VStr", t.ws))
            i += 1
            continue
        if is_id(t, "String"):
            au.note("S", "String -> VStr")
            out.append(Tok("id", "VStr", t.ws))
            i += 1
            continue
        out.append(t)
        i += 1
    return out
