// ---- spec padding: waste frames, shaped writes, reference acceptor for the write lengths (C04, C05) ----
pub open spec fn waste_frame(n: nat) -> Seq<u8> recommends n <= 65535 { seq![0u8] + be32(0) + be16(n as u16) + zeros(n) }
// a byte string that is a concatenation of well-formed waste frames (cmd 0, stream 0, zero fill)
pub open spec fn is_waste_stream(s: Seq<u8>) -> bool decreases s.len()
{
    if s.len() == 0 { true }
    else if s.len() < 7 { false }
    else {
        let n = de16(s.subrange(5, 7)) as int;
        &&& s[0] == 0u8 && s.subrange(1, 5) == be32(0)
        &&& s.len() >= 7 + n
        &&& s.subrange(7, 7 + n) == zeros(n as nat)
        &&& is_waste_stream(s.subrange(7 + n, s.len() as int))
    }
}
pub proof fn lemma_waste_frame_is_stream(n: nat)
    requires n <= 65535
    ensures is_waste_stream(waste_frame(n))
{
    let s = waste_frame(n);
    lemma_be16(n as u16);
    assert(s.subrange(5, 7) =~= be16(n as u16));
    assert(s.subrange(1, 5) =~= be32(0));
    assert(s.subrange(7, 7 + n as int) =~= zeros(n));
    assert(s.subrange(7 + n as int, s.len() as int) =~= Seq::<u8>::empty());
    reveal_with_fuel(is_waste_stream, 2);
}
pub proof fn lemma_waste_concat(a: Seq<u8>, b: Seq<u8>)
    requires is_waste_stream(a), is_waste_stream(b)
    ensures is_waste_stream(a + b)
    decreases a.len()
{
    if a.len() == 0 { assert(a + b =~= b); }
    else {
        let n = de16(a.subrange(5, 7)) as int;
        let s = a + b;
        assert(s.subrange(5, 7) =~= a.subrange(5, 7));
        assert(s.subrange(1, 5) =~= a.subrange(1, 5));
        assert(s.subrange(7, 7 + n) =~= a.subrange(7, 7 + n));
        assert(s.subrange(7 + n, s.len() as int) =~= a.subrange(7 + n, a.len() as int) + b);
        lemma_waste_concat(a.subrange(7 + n, a.len() as int), b);
    }
}
// what a shaped write puts on the transport: the payload once, in order, as a contiguous prefix; then only padding frames
pub open spec fn shaped(total: Seq<u8>, payload: Seq<u8>) -> bool {
    &&& total.len() >= payload.len()
    &&& total.subrange(0, payload.len() as int) == payload
    &&& is_waste_stream(total.subrange(payload.len() as int, total.len() as int))
}
// the transport history grew by a shaped write of `payload`
pub open spec fn wrote_shaped(ow: Writer, fw: Writer, payload: Seq<u8>) -> bool {
    &&& fw.bytes.len() >= ow.bytes.len()
    &&& fw.bytes.subrange(0, ow.bytes.len() as int) == ow.bytes
    &&& shaped(fw.bytes.subrange(ow.bytes.len() as int, fw.bytes.len() as int), payload)
}
// a frame handed to the session's write path: buffered (appended to the pending bytes, nothing written) or
// written together with everything pending, pending bytes first
pub open spec fn frame_submitted(o: SessionState, f: SessionState, send_padding: bool, fr: FrameS) -> bool {
    if o.buffering.v { f.buffer@ == o.buffer@ + wire(fr) && f.writer == o.writer }
    else { f.buffer@.len() == 0 && wrote_shaped(o.writer, f.writer, o.buffer@ + wire(fr)) }
}
// sizes the wire format can honour: a check mark or 1..=65535
pub open spec fn sizes_ok(sizes: Seq<i32>) -> bool { forall|i: int| 0 <= i < sizes.len() ==> (sizes[i] == -1 || 0 < #[trigger] sizes[i] <= 65535) }

// reference acceptor for the write lengths of one padded packet: remaining payload r, scheme sizes from index i
pub open spec fn shape_from(sizes: Seq<i32>, i: int, r: nat) -> Seq<nat> decreases sizes.len() - i
{
    if i < 0 || i >= sizes.len() { if r > 0 { seq![r] } else { Seq::<nat>::empty() } }
    else if sizes[i] == -1 { if r == 0 { Seq::<nat>::empty() } else { shape_from(sizes, i + 1, r) } }
    else {
        let s = sizes[i] as nat;
        if r > s { seq![s] + shape_from(sizes, i + 1, (r - s) as nat) }                     // payload-only record of the drawn size
        else if r > 0 { (if s > r + 7 { seq![s] } else { seq![r] }) + shape_from(sizes, i + 1, 0) }   // payload completed with padding
        else { seq![(7 + s) as nat] + shape_from(sizes, i + 1, 0) }                          // padding-only record: drawn size + header
    }
}

// a chunk of any size as the PSH frames that carry it: pieces of 65535 bytes, the last one shorter (or empty for an empty chunk)
pub open spec fn psh_frames(sid: u32, d: Seq<u8>) -> Seq<FrameS> decreases d.len()
{
    if d.len() <= 65535 { seq![FrameS { cmd: Command::Push, stream_id: sid, data: d }] }
    else { seq![FrameS { cmd: Command::Push, stream_id: sid, data: d.subrange(0, 65535) }] + psh_frames(sid, d.subrange(65535, d.len() as int)) }
}
pub open spec fn concat_data(fs: Seq<FrameS>) -> Seq<u8> decreases fs.len()
{ if fs.len() == 0 { Seq::empty() } else { fs[0].data + concat_data(fs.drop_first()) } }
// the pieces are all PSH frames of that stream, each fits one frame, and their payloads concatenate to the chunk
pub proof fn lemma_psh_frames(sid: u32, d: Seq<u8>)
    ensures
        concat_data(psh_frames(sid, d)) == d,
        forall|i: int| 0 <= i < psh_frames(sid, d).len() ==> (#[trigger] psh_frames(sid, d)[i]).data.len() <= 65535
            && psh_frames(sid, d)[i].cmd == Command::Push && psh_frames(sid, d)[i].stream_id == sid,
    decreases d.len()
{
    if d.len() <= 65535 {
        let fs = psh_frames(sid, d);
        assert(fs.drop_first() =~= Seq::<FrameS>::empty());
        assert(concat_data(fs.drop_first()) =~= Seq::<u8>::empty());
        assert(concat_data(fs) =~= d + Seq::<u8>::empty());
        assert(concat_data(fs) =~= d);
    } else {
        let hd = FrameS { cmd: Command::Push, stream_id: sid, data: d.subrange(0, 65535) };
        let tl = psh_frames(sid, d.subrange(65535, d.len() as int));
        lemma_psh_frames(sid, d.subrange(65535, d.len() as int));
        let fs = psh_frames(sid, d);
        assert(fs =~= seq![hd] + tl);
        assert(fs.drop_first() =~= tl);
        assert(fs[0] == hd);
        assert(concat_data(fs) == hd.data + concat_data(tl));
        assert(concat_data(fs) =~= d.subrange(0, 65535) + d.subrange(65535, d.len() as int));
        assert(d.subrange(0, 65535) + d.subrange(65535, d.len() as int) =~= d);
        assert forall|i: int| 0 <= i < fs.len() implies (#[trigger] fs[i]).data.len() <= 65535 && fs[i].cmd == Command::Push && fs[i].stream_id == sid by {
            if i > 0 { assert(fs[i] == tl[i - 1]); }
        }
    }
}
