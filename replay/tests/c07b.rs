//! F-C07-b (repaired): a host name that merely contained the reserved UDP-over-TCP name started the UDP relay.
#![allow(dead_code)]
mod common;
use common::{TestConfig, create_test_client, create_test_server};
use std::net::TcpListener;
use tokio::time::{Duration, sleep, timeout};

fn available_port() -> u16 { TcpListener::bind("127.0.0.1:0").unwrap().local_addr().unwrap().port() }

/// F-C07-b  handler.vx_block_handle_stream.only_the_reserved_name_selects_the_udp_relay
/// a TCP request for a host name that merely CONTAINS "udp-over-tcp.arpa" must be treated like any other name
/// (here: it cannot be resolved, so the open must be refused); the server instead starts the UDP relay and answers 'ok'
#[tokio::test]
async fn f_c07_b_only_the_reserved_name_selects_udp() -> anyhow::Result<()> {
    let server_port = available_port();
    let config = TestConfig { server_addr: format!("127.0.0.1:{server_port}"), client_listen: format!("127.0.0.1:{}", available_port()), password: "replay_password".to_string() };
    let server = create_test_server(&config).await?;
    let server_addr = config.server_addr.clone();
    tokio::spawn(async move { let _ = server.listen(&server_addr).await; });
    sleep(Duration::from_millis(300)).await;
    let client = create_test_client(&config).await?;
    let r = timeout(Duration::from_secs(25), client.create_proxy_stream(("files.not-udp-over-tcp.arpa.invalid".to_string(), 80))).await?;
    assert!(r.is_err(), "a TCP open for host `files.not-udp-over-tcp.arpa.invalid` was answered 'ok': the server never dialled it, it started the UDP relay because the name contains the magic substring");
    Ok(())
}

/// ... and the reserved name itself still selects the relay (the client's own UDP path uses it)
#[tokio::test]
async fn f_c07_b_the_reserved_name_still_starts_the_relay() -> anyhow::Result<()> {
    let server_port = available_port();
    let config = TestConfig { server_addr: format!("127.0.0.1:{server_port}"), client_listen: format!("127.0.0.1:{}", available_port()), password: "replay_password".to_string() };
    let server = create_test_server(&config).await?;
    let server_addr = config.server_addr.clone();
    tokio::spawn(async move { let _ = server.listen(&server_addr).await; });
    sleep(Duration::from_millis(300)).await;
    let client = create_test_client(&config).await?;
    let r = timeout(Duration::from_secs(10), client.create_proxy_stream((anytls_rs::client::UDP_OVER_TCP_MAGIC_ADDR.to_string(), 0))).await?;
    assert!(r.is_ok(), "the reserved name no longer starts the UDP relay: {:?}", r.err());
    Ok(())
}
