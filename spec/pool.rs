// ---- spec pool: the reaper's decision as a reference function over the ascending entry list (hand-written from the property statement:
// purge closed entries, never touch a session that still carries streams, keep unexpired ones, keep `min_idle` of the expired ones
// (oldest first), remove the rest) ----
pub ghost struct Ent { pub key: u64, pub closed: bool, pub in_use: bool, pub idle_since: u64 }
pub open spec fn idle_for(now: u64, since: u64) -> int { if now >= since { now - since } else { 0 } }
pub open spec fn plan(ents: Seq<Ent>, i: int, active: int, now: u64, timeout: u64, min_idle: int) -> Seq<u64> decreases ents.len() - i
{
    if i < 0 || i >= ents.len() { Seq::empty() }
    else if ents[i].closed { seq![ents[i].key] + plan(ents, i + 1, active, now, timeout, min_idle) }
    else if ents[i].in_use { plan(ents, i + 1, active, now, timeout, min_idle) }          // in use: not idle, neither removed nor counted
    else if idle_for(now, ents[i].idle_since) < timeout { plan(ents, i + 1, active + 1, now, timeout, min_idle) }
    else if active < min_idle { plan(ents, i + 1, active + 1, now, timeout, min_idle) }
    else { seq![ents[i].key] + plan(ents, i + 1, active, now, timeout, min_idle) }
}
pub open spec fn n_open(ents: Seq<Ent>, i: int) -> int decreases ents.len() - i
{ if i < 0 || i >= ents.len() { 0 } else { (if ents[i].closed || ents[i].in_use { 0int } else { 1int }) + n_open(ents, i + 1) } }
// open entries the plan keeps, from position i on
pub open spec fn n_kept_open(ents: Seq<Ent>, i: int, active: int, now: u64, timeout: u64, min_idle: int) -> int decreases ents.len() - i
{
    if i < 0 || i >= ents.len() { 0 }
    else if ents[i].closed || ents[i].in_use { n_kept_open(ents, i + 1, active, now, timeout, min_idle) }
    else if idle_for(now, ents[i].idle_since) < timeout || active < min_idle { 1 + n_kept_open(ents, i + 1, active + 1, now, timeout, min_idle) }
    else { n_kept_open(ents, i + 1, active, now, timeout, min_idle) }
}
// the reaper never leaves fewer open idle sessions than the configured minimum (or all of them, if there are fewer)
pub proof fn lemma_plan_keeps_minimum(ents: Seq<Ent>, i: int, active: int, now: u64, timeout: u64, min_idle: int)
    requires 0 <= i <= ents.len(), active >= 0, min_idle >= 0
    ensures active + n_kept_open(ents, i, active, now, timeout, min_idle) >= (if min_idle <= active + n_open(ents, i) { min_idle } else { active + n_open(ents, i) }),
        n_kept_open(ents, i, active, now, timeout, min_idle) >= 0, n_open(ents, i) >= 0
    decreases ents.len() - i
{
    if i < ents.len() {
        if ents[i].closed || ents[i].in_use { lemma_plan_keeps_minimum(ents, i + 1, active, now, timeout, min_idle); }
        else if idle_for(now, ents[i].idle_since) < timeout || active < min_idle { lemma_plan_keeps_minimum(ents, i + 1, active + 1, now, timeout, min_idle); }
        else { lemma_plan_keeps_minimum(ents, i + 1, active, now, timeout, min_idle); }
    }
}
// a closed entry is always in the plan
pub proof fn lemma_plan_purges_closed(ents: Seq<Ent>, i: int, active: int, now: u64, timeout: u64, min_idle: int, j: int)
    requires 0 <= i <= j < ents.len(), ents[j].closed
    ensures plan(ents, i, active, now, timeout, min_idle).contains(ents[j].key)
    decreases ents.len() - i
{
    let p = plan(ents, i, active, now, timeout, min_idle);
    if i == j { assert(p[0] == ents[j].key); }
    else {
        let a2 = if ents[i].closed || ents[i].in_use { active } else if idle_for(now, ents[i].idle_since) < timeout || active < min_idle { active + 1 } else { active };
        let rest = plan(ents, i + 1, a2, now, timeout, min_idle);
        lemma_plan_purges_closed(ents, i + 1, a2, now, timeout, min_idle, j);
        let z = choose|z: int| 0 <= z < rest.len() && rest[z] == ents[j].key;
        if ents[i].closed || (!ents[i].in_use && !(idle_for(now, ents[i].idle_since) < timeout || active < min_idle)) { assert(p =~= seq![ents[i].key] + rest); assert(p[z + 1] == ents[j].key); }
        else { assert(p == rest); }
    }
}
// everything in the plan is an entry that is closed, or expired AND without streams: an open session that is unexpired or in use is never destroyed
pub proof fn lemma_plan_only_closed_or_expired(ents: Seq<Ent>, i: int, active: int, now: u64, timeout: u64, min_idle: int)
    requires 0 <= i <= ents.len()
    ensures forall|z: int| 0 <= z < plan(ents, i, active, now, timeout, min_idle).len() ==> exists|q: int| i <= q < ents.len() && (#[trigger] ents[q]).key == (#[trigger] plan(ents, i, active, now, timeout, min_idle)[z])
            && (ents[q].closed || (!ents[q].in_use && idle_for(now, ents[q].idle_since) >= timeout))
    decreases ents.len() - i
{
    let p = plan(ents, i, active, now, timeout, min_idle);
    if i < ents.len() {
        let a2 = if ents[i].closed || ents[i].in_use { active } else if idle_for(now, ents[i].idle_since) < timeout || active < min_idle { active + 1 } else { active };
        let rest = plan(ents, i + 1, a2, now, timeout, min_idle);
        lemma_plan_only_closed_or_expired(ents, i + 1, a2, now, timeout, min_idle);
        let removed_i = ents[i].closed || (!ents[i].in_use && !(idle_for(now, ents[i].idle_since) < timeout || active < min_idle));
        if removed_i { assert(p =~= seq![ents[i].key] + rest); } else { assert(p == rest); }
        assert forall|z: int| 0 <= z < p.len() implies exists|q: int| i <= q < ents.len() && (#[trigger] ents[q]).key == (#[trigger] p[z]) && (ents[q].closed || (!ents[q].in_use && idle_for(now, ents[q].idle_since) >= timeout)) by {
            if removed_i && z == 0 { assert(ents[i].key == p[0]); }
            else {
                let zz = if removed_i { z - 1 } else { z };
                assert(rest[zz] == p[z]);
                let q = choose|q: int| i + 1 <= q < ents.len() && (#[trigger] ents[q]).key == rest[zz] && (ents[q].closed || (!ents[q].in_use && idle_for(now, ents[q].idle_since) >= timeout));
                assert(ents[q].key == p[z]);
            }
        }
    }
}
// `ents` lists the map's entries in ascending key order (what BTreeMap::iter yields), reduced to what the reaper looks at
pub open spec fn is_listing(m: Map<u64, PooledSession>, ents: Seq<Ent>) -> bool {
    &&& ents.len() == m.dom().len()
    &&& forall|i: int| 0 <= i < ents.len() ==> m.contains_key((#[trigger] ents[i]).key) && ents[i].closed == m[ents[i].key].session.closed && ents[i].in_use == (m[ents[i].key].session.open_streams > 0) && ents[i].idle_since == m[ents[i].key].idle_since.t
    &&& forall|i: int, j: int| 0 <= i < j < ents.len() ==> (#[trigger] ents[i]).key < (#[trigger] ents[j]).key
    &&& forall|k: u64| m.contains_key(k) ==> exists|i: int| 0 <= i < ents.len() && (#[trigger] ents[i]).key == k
}
pub open spec fn listing_of(v: Seq<(&u64, &PooledSession)>) -> Seq<Ent> {
    Seq::new(v.len(), |i: int| Ent { key: *v[i].0, closed: v[i].1.session.closed, in_use: v[i].1.session.open_streams > 0, idle_since: v[i].1.idle_since.t })
}
// what one reaper pass must establish, for the clock value `now` it read
pub open spec fn reaped(o: PoolState, f: PoolState, timeout: u64, min_idle: int, ents: Seq<Ent>, now: u64) -> bool {
    let p = plan(ents, 0, 0, now, timeout, min_idle);
    &&& is_listing(o.idle_sessions@, ents)
    &&& forall|k: u64| #![trigger f.idle_sessions@.contains_key(k)] f.idle_sessions@.contains_key(k) <==> (o.idle_sessions@.contains_key(k) && !p.contains(k))
    &&& forall|k: u64| #![trigger f.idle_sessions@[k]] f.idle_sessions@.contains_key(k) ==> f.idle_sessions@[k] == o.idle_sessions@[k]
    &&& forall|z: int| 0 <= z < p.len() ==> closes(f.fx@).contains(o.idle_sessions@[#[trigger] p[z]].session.id)
    &&& forall|id: int| closes(f.fx@).contains(id) && !closes(o.fx@).contains(id) ==> exists|z: int| 0 <= z < p.len() && o.idle_sessions@[#[trigger] p[z]].session.id == id
}
