// ---- shim handler_env: what server/handler.rs refers to (TRUSTED, effect log) ----
pub use std::sync::Arc;
pub struct Stream { pub id: u32 }
impl Stream {
    pub fn id(&self) -> (r: u32) ensures r == self.id { self.id }
    // the reader cell: after lock elision the guard is the `rd` parameter
    pub fn reader(&self) -> () { () }
    // Stream::send_fin (group `stream`)
    #[verifier::external_body] pub fn send_fin(&self, fx: &mut Ghost<Seq<HEffect>>) ensures final(fx)@ == old(fx)@.push(HEffect::Fin) { }
}
pub enum HEffect {
    Submit { frame: FrameS },                 // session.write_control_frame(frame) attempted (Ok or Err)
    Dial { ip: IpAddr, port: u16 },           // TcpStream::connect(SocketAddr::new(ip, port)) attempted
    Resolve { host: Seq<char>, port: u16 },   // resolve_host_with_cache(host, port) called
    Forward,                                  // bidirectional forwarding started
    Udp,                                      // UDP-over-TCP handler started
    Fin,                                      // stream.send_fin(): the end of the stream announced to the peer
}
pub struct Session { pub pv: u8 }
impl Session {
    #[verifier::external_body]
    pub fn write_control_frame(&self, frame: Frame, fx: &mut Ghost<Seq<HEffect>>) -> (r: Result<()>)
        ensures final(fx)@ == old(fx)@.push(HEffect::Submit { frame: frame.spec() })
    { unimplemented!() }
    #[verifier::external_body]
    pub fn peer_version(&self) -> (r: u8) ensures r == self.pv { unimplemented!() }
}
pub struct SocketAddr { pub ip: IpAddr, pub port: u16 }
impl SocketAddr {
    pub fn new(ip: IpAddr, port: u16) -> (r: Self) ensures r.ip == ip, r.port == port { SocketAddr { ip, port } }
    pub fn port(&self) -> (r: u16) ensures r == self.port { self.port }
}
#[verifier::external_body]
pub fn vx_parse_IpAddr(s: &String) -> (r: std::result::Result<IpAddr, ()>)
    ensures r is Ok ==> ip_display(r->Ok_0) == s@
{ unimplemented!() }
// the resolver as the handler sees it: opaque; its own contract is unit `dns_cache`
#[verifier::external_body]
pub fn resolve_host_with_cache(host: &String, port: u16, fx: &mut Ghost<Seq<HEffect>>) -> (r: Result<SocketAddr>)
    ensures final(fx)@ == old(fx)@.push(HEffect::Resolve { host: host@, port: port }), r is Ok ==> r->Ok_0.port == port
{ unimplemented!() }
pub struct Elapsed;
pub struct Duration { pub s: u64 }
impl Duration { pub fn from_secs(s: u64) -> (r: Duration) ensures r.s == s { Duration { s } } pub fn as_secs(&self) -> (r: u64) ensures r == self.s { self.s } }
pub struct TcpStream { pub _p: () }
pub struct Connecting { pub ghost ip: IpAddr, pub ghost port: u16 }
impl TcpStream {
    #[verifier::external_body]
    pub fn connect(a: SocketAddr, fx: &mut Ghost<Seq<HEffect>>) -> (r: Connecting)
        ensures final(fx)@ == old(fx)@.push(HEffect::Dial { ip: a.ip, port: a.port })
    { unimplemented!() }
}
#[verifier::external_body]
pub fn timeout(d: Duration, c: Connecting) -> (r: std::result::Result<std::result::Result<TcpStream, io::Error>, Elapsed>) { unimplemented!() }
#[verifier::external_body]
pub fn configure_tcp_stream(c: &TcpStream, d: &String) { }
#[verifier::external_body]
pub fn proxy_tcp_connection_data_forwarding(stream: Arc<Stream>, outbound: TcpStream, destination: SocksAddr, fx: &mut Ghost<Seq<HEffect>>) -> (r: Result<()>)
    ensures final(fx)@ == old(fx)@.push(HEffect::Forward)
{ unimplemented!() }
impl Bytes {
    #[verifier::external_body]
    pub fn vx_from_string(s: String) -> (r: Bytes) ensures r@ == utf8_encode(s@) { unimplemented!() }
}
// a formatted error message is never empty (format! with a literal prefix)
#[verifier::external_body]
pub fn vx_unused_fmt() -> (r: String) { unimplemented!() }
pub open spec fn synacks(fx: Seq<HEffect>, id: u32) -> Seq<Seq<u8>> decreases fx.len()
{ if fx.len() == 0 { Seq::empty() } else { let r = synacks(fx.drop_last(), id); match fx.last() { HEffect::Submit { frame } => if frame.cmd == Command::SynAck && frame.stream_id == id { r.push(frame.data) } else { r }, _ => r } } }
pub broadcast proof fn lemma_synacks_push(fx: Seq<HEffect>, e: HEffect, id: u32)
    ensures #[trigger] synacks(fx.push(e), id) == (match e { HEffect::Submit { frame } => if frame.cmd == Command::SynAck && frame.stream_id == id { synacks(fx, id).push(frame.data) } else { synacks(fx, id) }, _ => synacks(fx, id) })
{ assert(fx.push(e).drop_last() =~= fx); assert(fx.push(e).last() == e); }
pub open spec fn dials(fx: Seq<HEffect>) -> Seq<(IpAddr, u16)> decreases fx.len()
{ if fx.len() == 0 { Seq::empty() } else { let r = dials(fx.drop_last()); match fx.last() { HEffect::Dial { ip, port } => r.push((ip, port)), _ => r } } }
pub broadcast proof fn lemma_dials_push(fx: Seq<HEffect>, e: HEffect)
    ensures #[trigger] dials(fx.push(e)) == (match e { HEffect::Dial { ip, port } => dials(fx).push((ip, port)), _ => dials(fx) })
{ assert(fx.push(e).drop_last() =~= fx); assert(fx.push(e).last() == e); }
pub open spec fn n_forward(fx: Seq<HEffect>) -> nat decreases fx.len()
{ if fx.len() == 0 { 0 } else { n_forward(fx.drop_last()) + (if fx.last() is Forward { 1nat } else { 0nat }) } }
pub broadcast proof fn lemma_forward_push(fx: Seq<HEffect>, e: HEffect)
    ensures #[trigger] n_forward(fx.push(e)) == n_forward(fx) + (if e is Forward { 1nat } else { 0nat })
{ assert(fx.push(e).drop_last() =~= fx); assert(fx.push(e).last() == e); }
pub open spec fn resolves(fx: Seq<HEffect>) -> Seq<(Seq<char>, u16)> decreases fx.len()
{ if fx.len() == 0 { Seq::empty() } else { let r = resolves(fx.drop_last()); match fx.last() { HEffect::Resolve { host, port } => r.push((host, port)), _ => r } } }
pub broadcast proof fn lemma_resolves_push(fx: Seq<HEffect>, e: HEffect)
    ensures #[trigger] resolves(fx.push(e)) == (match e { HEffect::Resolve { host, port } => resolves(fx).push((host, port)), _ => resolves(fx) })
{ assert(fx.push(e).drop_last() =~= fx); assert(fx.push(e).last() == e); }
pub broadcast group group_hfx { lemma_synacks_push, lemma_dials_push, lemma_forward_push, lemma_resolves_push, lemma_udp_push }

// ---- handle_stream's dispatch (magic UDP destination vs. TCP proxy) ----
pub mod udp_dispatch {
    use super::*;
    #[verifier::external_body]
    pub fn handle_udp_over_tcp(stream: Arc<Stream>, fx: &mut Ghost<Seq<HEffect>>) -> (r: Result<()>)
        ensures final(fx)@ == old(fx)@.push(HEffect::Udp)
    { unimplemented!() }
}
pub mod server { pub mod udp_proxy { pub use super::super::udp_dispatch::handle_udp_over_tcp; } }
// `destination.addr.contains("udp-over-tcp.arpa")`: substring test on the decoded host name
pub uninterp spec fn is_udp_magic(host: Seq<char>) -> bool;
#[verifier::external_body]
pub fn vx_str_contains_magic(s: &String, pat: &str) -> (r: bool) ensures r == is_udp_magic(s@) { unimplemented!() }
pub open spec fn n_udp(fx: Seq<HEffect>) -> nat decreases fx.len()
{ if fx.len() == 0 { 0 } else { n_udp(fx.drop_last()) + (if fx.last() is Udp { 1nat } else { 0nat }) } }
pub broadcast proof fn lemma_udp_push(fx: Seq<HEffect>, e: HEffect)
    ensures #[trigger] n_udp(fx.push(e)) == n_udp(fx) + (if e is Udp { 1nat } else { 0nat })
{ assert(fx.push(e).drop_last() =~= fx); assert(fx.push(e).last() == e); }
