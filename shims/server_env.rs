// ---- shim server_env: the server's connection set-up after the TLS handshake (TRUSTED) ----
pub struct StringMap { pub _p: () }
impl Clone for StringMap { #[verifier::external_body] fn clone(&self) -> (r: Self) { unimplemented!() } }
pub struct TlsS { pub ghost avail: Seq<u8> }           // the decrypted byte stream the client will send (prophecy)
pub struct RdH { pub ghost a: Seq<u8> }
pub struct WrH { pub ghost written: Seq<u8> }
impl Unpin for RdH {}
impl AsyncReadExt for RdH {
    open spec fn avail(&self) -> Seq<u8> { self.a }
    #[verifier::external_body] fn read_exact(&mut self, buf: &mut [u8]) -> (r: io::Result<usize>) { unimplemented!() }
    #[verifier::external_body] fn read_u8(&mut self) -> (r: io::Result<u8>) { unimplemented!() }
    #[verifier::external_body] fn read_u16(&mut self) -> (r: io::Result<u16>) { unimplemented!() }
    #[verifier::external_body] fn read_i16(&mut self) -> (r: io::Result<i16>) { unimplemented!() }
    #[verifier::external_body] fn read_u32(&mut self) -> (r: io::Result<u32>) { unimplemented!() }
    #[verifier::external_body] fn read(&mut self, buf: &mut [u8]) -> (r: io::Result<usize>) { unimplemented!() }
}
pub struct Elapsed;
pub struct Duration { pub s: u64 }
impl Duration { #[verifier::external_body] pub fn from_secs(s: u64) -> (r: Duration) ensures r.s == s { unimplemented!() } #[verifier::external_body] pub fn from_millis(s: u64) -> (r: Duration) { unimplemented!() } }
pub mod tokio {
    // time::timeout(d, fut): after async erasure the awaited operation has run to completion (its result is x); the timer may
    // still fire, in which case the result is dropped
    pub mod time { use super::super::*; pub use super::super::Duration; pub use super::super::Elapsed;
        #[verifier::external_body] pub fn timeout<D, T>(d: D, x: T) -> (r: std::result::Result<T, Elapsed>) ensures r is Ok ==> r->Ok_0 == x { unimplemented!() } }
    pub mod io { use super::super::*; #[verifier::external_body] pub fn split(s: TlsS) -> (r: (RdH, WrH)) ensures r.0.a == s.avail, r.1.written == Seq::<u8>::empty() { unimplemented!() } }
    pub mod sync { pub mod mpsc { use super::super::super::*;
        pub struct UnboundedSender<T> { pub _p: std::marker::PhantomData<T> }
        pub struct UnboundedReceiver<T> { pub _p: std::marker::PhantomData<T> }
        #[verifier::external_body] pub fn unbounded_channel<T>() -> (r: (UnboundedSender<T>, UnboundedReceiver<T>)) { unimplemented!() } } }
}
pub struct Stream { pub id: u32 }
pub mod session { pub use super::Stream; }
pub enum SrvEv { SessionBuilt { frames_from: Seq<u8> } }   // a session object exists and will parse frames from this byte stream
pub struct Session { pub ghost rd: Seq<u8> }
impl Session {
    #[verifier::external_body]
    pub fn new_server(reader: RdH, writer: WrH, padding: Arc<PaddingFactory>, fx: &mut Ghost<Seq<SrvEv>>) -> (r: Session)
        ensures r.rd == reader.a, final(fx)@ == old(fx)@.push(SrvEv::SessionBuilt { frames_from: reader.a })
    { unimplemented!() }
    #[verifier::external_body] pub fn set_server_settings(&mut self, s: Option<StringMap>) ensures final(self).rd == old(self).rd { }
    #[verifier::external_body] pub fn set_stream_callback(&mut self, tx: tokio::sync::mpsc::UnboundedSender<Arc<Stream>>) ensures final(self).rd == old(self).rd { }
}
