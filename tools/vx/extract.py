"""Mechanical extraction of items from /repo's working tree, with the closed list of edit
classes of DESIGN.md section 2.2:  D (drops), A (async erasure), R (idiom rewrites),
H (hoisting of interior-mutable state, guard elimination), L (lock flags), B (block
extraction), I (injection of specification text).  Every edit is recorded in an Audit."""
import re
from .tok import (Tok, tokenize, render, match_close, match_open, texts, is_p, is_id, toks_of,
                  find_seq, find_all_seq, OPEN, CLOSE)


class Undecided(Exception):
    """extraction could not be carried out within the allowed rules -> exit 2, never an alarm"""


class Audit:
    def __init__(self):
        self.counts = {}
        self.log = []

    def note(self, cls, what):
        self.counts[cls] = self.counts.get(cls, 0) + 1
        self.log.append((cls, " ".join(what.split())[:100]))


# ------------------------------------------------------------------ locating items
def impl_ranges(toks):
    res = []
    i, n = 0, len(toks)
    while i < n:
        if is_id(toks[i], "impl") and (i == 0 or not is_p(toks[i - 1], ".")):
            j = i
            depth = 0
            while j < n and not (is_p(toks[j], "{") and depth == 0):
                if toks[j].kind == "p" and toks[j].text in "([":
                    depth += 1
                elif toks[j].kind == "p" and toks[j].text in ")]":
                    depth -= 1
                elif is_p(toks[j], ";") and depth == 0:
                    break
                j += 1
            if j >= n or not is_p(toks[j], "{"):
                i += 1
                continue
            header = " ".join(t.text for t in toks[i:j])
            k = match_close(toks, j)
            res.append((header, i, j, k))
            i = j + 1
            continue
        i += 1
    return res


def norm(s):
    return " ".join(t.text for t in toks_of(s))


def item_start(toks, i):
    """walk back from keyword index i over visibility / qualifiers / attributes / doc comments"""
    s = i
    while s > 0:
        p = toks[s - 1]
        if p.kind == "id" and p.text in ("pub", "async", "const", "unsafe", "default"):
            s -= 1
            continue
        if is_p(p, ")") and s >= 2:  # pub(crate)
            o = match_open(toks, s - 1)
            if o > 0 and is_id(toks[o - 1], "pub"):
                s = o - 1
                continue
        if is_p(p, "]"):  # attribute #[...]
            o = match_open(toks, s - 1)
            if o > 0 and is_p(toks[o - 1], "#"):
                s = o - 1
                continue
        break
    return s


def find_fn(toks, name, impl_hint=None, nth=1):
    """(start, name_idx, body_open, body_close) of fn `name`; inside the impl whose header
    equals impl_hint (token-normalised) if given, else a free fn (not inside any impl)."""
    impls = impl_ranges(toks)
    want = norm(impl_hint) if impl_hint else None
    cands = []
    for i in range(len(toks) - 1):
        if is_id(toks[i], "fn") and toks[i + 1].text == name and toks[i + 1].kind == "id":
            hdr = None
            for (h, a, b, c) in impls:
                if b < i < c:
                    hdr = h
            if want is None and hdr is None:
                cands.append(i)
            elif want is not None and hdr == want:
                cands.append(i)
    if len(cands) < nth:
        raise Undecided(f"lost anchor: fn {name} (impl {impl_hint!r}) not found")
    i = cands[nth - 1]
    s = item_start(toks, i)
    j = i
    depth = 0
    while True:
        t = toks[j]
        if t.kind == "p" and t.text in "([":
            depth += 1
        elif t.kind == "p" and t.text in ")]":
            depth -= 1
        elif is_p(t, "{") and depth == 0:
            break
        elif is_p(t, ";") and depth == 0:
            raise Undecided(f"fn {name} has no body")
        j += 1
    return s, i + 1, j, match_close(toks, j)


def find_impl(toks, header):
    want = norm(header)
    for (h, a, b, c) in impl_ranges(toks):
        if h == want:
            return item_start(toks, a), b, c
    raise Undecided(f"lost anchor: {header!r} not found")


def find_typeitem(toks, kw, name):
    """struct / enum / const / static / type NAME ... ; or {...}"""
    for i in range(len(toks) - 1):
        if is_id(toks[i], kw) and toks[i + 1].text == name and (i == 0 or not is_p(toks[i - 1], ".")):
            # must be at item level: not inside a fn body.  cheap test: brace depth 0 or inside mod/impl only
            s = item_start(toks, i)
            j = i
            depth = 0
            while True:
                t = toks[j]
                if t.kind == "p" and t.text in "([<" and t.text != "<":
                    depth += 1
                elif t.kind == "p" and t.text in ")]":
                    depth -= 1
                elif is_p(t, ";") and depth == 0:
                    return s, j
                elif is_p(t, "{") and depth == 0:
                    e = match_close(toks, j)
                    return s, e
                j += 1
    raise Undecided(f"lost anchor: {kw} {name} not found")


# ------------------------------------------------------------------ rule D
LOG_MACROS = {"trace", "debug", "info", "warn", "error"}
SPAN_MACROS = {"info_span", "debug_span", "trace_span", "error_span", "warn_span", "span"}


def _stmt_pos(out):
    if not out:
        return True
    p = out[-1]
    if p.kind == "p" and p.text in (";", "{", "}"):
        return True
    if is_p(p, ">") and len(out) >= 2 and is_p(out[-2], "=") and p.ws == "":
        return True  # match arm  =>
    return False


def _uses(toks, name, skip_range=None):
    for k, t in enumerate(toks):
        if skip_range and skip_range[0] <= k < skip_range[1]:
            continue
        if t.kind == "id" and t.text == name:
            return True
    return False


def _log_only_closure(arg):
    """|x| { log!(..); }   or   |x| log!(..)   : a closure whose whole body is logging"""
    txt = [t.text for t in arg]
    if not txt or txt[0] != "|":
        return False
    try:
        k = txt.index("|", 1)
    except ValueError:
        return False
    body = arg[k + 1:]
    if body and is_p(body[0], "{"):
        body = body[1:-1]
    # strip `tracing::`
    q = 0
    while q < len(body):
        j = q
        if is_id(body[j], "tracing") and texts(body, j + 1, 2) == [":", ":"]:
            j += 3
        if not (j + 2 < len(body) and body[j].kind == "id" and body[j].text in LOG_MACROS and is_p(body[j + 1], "!") and body[j + 2].text in OPEN):
            return False
        c = match_close(body, j + 2)
        q = c + 1
        if q < len(body) and is_p(body[q], ";"):
            q += 1
    return True


def rule_D_inspect(toks, au):
    """X.inspect_err(|e| log!(..)) / X.inspect(|v| log!(..))  ->  X      (the closure only logs)"""
    out, i, n = [], 0, len(toks)
    while i < n:
        t = toks[i]
        if is_p(t, ".") and i + 2 < n and toks[i + 1].kind == "id" and toks[i + 1].text in ("inspect_err", "inspect") and is_p(toks[i + 2], "("):
            k = match_close(toks, i + 2)
            if _log_only_closure(toks[i + 3:k]):
                au.note("D", f".{toks[i+1].text}(logging closure)")
                i = k + 1
                continue
        out.append(t)
        i += 1
    return out


def rule_D_hooks(toks, au):
    """#[cfg(feature = "verif-hooks")] STATEMENT;   ->  dropped: the verified configuration is the default one (feature off)"""
    pat = ["#", "[", "cfg", "(", "feature", "=", '"verif-hooks"', ")", "]"]
    while True:
        z = find_seq(toks, pat)
        if z < 0:
            return toks
        k = z + len(pat)
        depth = 0
        # the guarded statement / item ends at `;` or at the `}` of its (last) block: `if c { .. }`, `pub mod m { .. }`
        while k < len(toks):
            if toks[k].kind == "p" and toks[k].text in OPEN:
                depth += 1
            elif toks[k].kind == "p" and toks[k].text in CLOSE:
                depth -= 1
                if depth == 0 and toks[k].text == "}" and not (k + 1 < len(toks) and is_id(toks[k + 1], "else")):
                    break
            elif is_p(toks[k], ";") and depth == 0:
                break
            k += 1
        if k >= len(toks):
            raise Undecided("unterminated statement under #[cfg(feature = \"verif-hooks\")]")
        au.note("D", "statement under #[cfg(feature = \"verif-hooks\")] (feature off in the verified configuration)")
        if k + 1 < len(toks):
            toks[k + 1].ws = toks[z].ws + toks[k + 1].ws if not toks[k + 1].ws.strip() else toks[k + 1].ws
        del toks[z:k + 1]


def rule_D(toks, au):
    """drop statement-level logging macros, span statements, inner `use` items, and
    let-bindings that only feed dropped statements (initialiser = format!/span macro)"""
    toks = rule_D_hooks(toks, au)
    toks = rule_D_inspect(toks, au)
    out, i, n = [], 0, len(toks)
    while i < n:
        t = toks[i]
        j = i
        if is_id(t, "tracing") and texts(toks, i + 1, 2) == [":", ":"]:
            j = i + 3
        if j + 2 < n and toks[j].kind == "id" and toks[j].text in LOG_MACROS and is_p(toks[j + 1], "!") \
                and toks[j + 2].text in OPEN and _stmt_pos(out):
            k = match_close(toks, j + 2)
            end = k + 1
            arm = out and is_p(out[-1], ">")
            if end < n and is_p(toks[end], ";"):
                end += 1
                au.note("D", render(toks[i:end]))
                i = end
                continue
            if arm and end < n and is_p(toks[end], ","):
                # match arm whose whole body is a log call:  P => log!(..),   ->  P => {},
                au.note("D", render(toks[i:end]))
                out += [Tok("p", "{", " "), Tok("p", "}", "")]
                i = end
                continue
            if end < n and is_p(toks[end], "}"):
                # trailing expression of a unit block
                au.note("D", render(toks[i:end]))
                i = end
                continue
        if is_id(t, "use") and _stmt_pos(out) and i + 1 < n and toks[i + 1].kind == "id":
            k = i
            while not is_p(toks[k], ";"):
                k += 1
            au.note("D", render(toks[i:k + 1]))
            i = k + 1
            continue
        out.append(t)
        i += 1
    toks = out
    # let NAME = <init containing format!/span macro/Instant::now>; with NAME unused afterwards
    changed = True
    while changed:
        changed = False
        i = 0
        while i < len(toks):
            if is_id(toks[i], "let") and _stmt_pos(toks[:i]):
                j = i + 1
                if is_id(toks[j], "mut"):
                    j += 1
                if toks[j].kind == "id" and (is_p(toks[j + 1], "=") or is_p(toks[j + 1], ":")):
                    name = toks[j].text
                    k = j + 1
                    depth = 0
                    while not (is_p(toks[k], ";") and depth == 0):
                        if toks[k].kind == "p" and toks[k].text in OPEN:
                            depth += 1
                        elif toks[k].kind == "p" and toks[k].text in CLOSE:
                            depth -= 1
                        k += 1
                    init = toks[j + 1:k]
                    init_txt = [t.text for t in init]
                    loggy = ("format" in init_txt and "!" in init_txt) or any(m in init_txt for m in SPAN_MACROS) \
                        or (name.startswith("_") and "enter" in init_txt)
                    # a non-mut binding of a panic-free pure expression (identifiers, literals, len/is_empty/min/max calls) that
                    # nothing reads: it only fed dropped log statements
                    pure_unused = not is_id(toks[i + 1], "mut") and init_txt[:1] == ["="] and _pure_tokens(init[1:]) \
                        and all(t.kind in ("id", "num") or t.text in (":", ",", "(", ")", ".", "&") for t in init[1:])
                    if (loggy or pure_unused) and not _uses(toks, name, (i, k + 1)):
                        au.note("D", render(toks[i:k + 1]))
                        del toks[i:k + 1]
                        changed = True
                        continue
            i += 1
    # span.record(...);  statements on dropped spans are handled by recipes listing `drop_calls`
    toks = rule_D_dead(toks, au)
    return toks


PURE_COND_OK = {"len", "is_empty", "min", "max"}


def _pure_tokens(ts):
    """condition made of identifiers, literals, operators and .len()/.is_empty() only"""
    for k, t in enumerate(ts):
        if t.kind == "p" and t.text in ("{", "}", ";", "!") and not (t.text == "!" ):
            return False
        if is_p(t, "(") and k > 0 and ts[k - 1].kind == "id" and ts[k - 1].text not in PURE_COND_OK:
            return False
        if t.kind == "id" and t.text in ("await", "return", "break", "continue", "let", "mut"):
            return False
    return True


def rule_D_dead(toks, au):
    """after logging was dropped: (1) `if COND { }` without else and with a pure COND is removed;
    (2) a local `let mut X = <literal>;` whose only other occurrences are statements `X += E;` / `X = E;` with pure E
    (a counter that only fed log output) is removed together with those statements."""
    changed = True
    while changed:
        changed = False
        # (1) empty ifs
        i = 0
        while i < len(toks):
            if is_id(toks[i], "if") and _stmt_pos(toks[:i]) and not is_id(toks[i + 1], "let"):
                try:
                    j = _body_open(toks, i)
                except IndexError:
                    break
                k = match_close(toks, j)
                if k == j + 1 and not (k + 1 < len(toks) and is_id(toks[k + 1], "else")) and _pure_tokens(toks[i + 1:j]) \
                        and not (i > 0 and is_id(toks[i - 1], "else")):
                    au.note("D", "empty if (only logging inside): " + render(toks[i:k + 1]))
                    del toks[i:k + 1]
                    changed = True
                    continue
                # if C { } else { }  with both blocks empty and a pure condition
                if k == j + 1 and k + 3 < len(toks) and is_id(toks[k + 1], "else") and is_p(toks[k + 2], "{") and is_p(toks[k + 3], "}") \
                        and _pure_tokens(toks[i + 1:j]) and not (i > 0 and is_id(toks[i - 1], "else")):
                    au.note("D", "empty if/else (only logging inside): " + render(toks[i:k + 4]))
                    del toks[i:k + 4]
                    changed = True
                    continue
            # if let PAT = EXPR { }   with an empty block, a pure scrutinee and no else
            if is_id(toks[i], "if") and _stmt_pos(toks[:i]) and is_id(toks[i + 1], "let") and not (i > 0 and is_id(toks[i - 1], "else")):
                try:
                    j = _body_open(toks, i)
                except IndexError:
                    break
                k = match_close(toks, j)
                hdr = toks[i + 2:j]
                eqp = next((q for q, x in enumerate(hdr) if is_p(x, "=") and not is_p(hdr[q + 1], "=")), None)
                if k == j + 1 and eqp is not None and not (k + 1 < len(toks) and is_id(toks[k + 1], "else")) \
                        and not any(is_p(x, "&") and q + 1 < len(hdr) and is_p(hdr[q + 1], "&") for q, x in enumerate(hdr)) \
                        and _pure_tokens([x for x in hdr[eqp + 1:] if not (x.kind == "p" and x.text in ("*", "&"))]):
                    au.note("D", "empty if-let (only logging inside): " + render(toks[i:k + 1]))
                    del toks[i:k + 1]
                    changed = True
                    continue
            i += 1
        # (2) dead counters
        i = 0
        while i < len(toks):
            if is_id(toks[i], "let") and is_id(toks[i + 1], "mut") and toks[i + 2].kind == "id" and _stmt_pos(toks[:i]):
                name = toks[i + 2].text
                k = i + 3
                while not is_p(toks[k], ";"):
                    k += 1
                init = toks[i + 3:k]
                itxt = [t.text for t in init]
                if itxt and itxt[0] in ("=", ":") and all(t.kind in ("num",) or t.text in ("=", ":", "usize", "u64", "u32", "u16", "u8", "i32", "i64", "false", "true") for t in init):
                    # find all other occurrences
                    occ = [q for q in range(len(toks)) if toks[q].kind == "id" and toks[q].text == name and not (i <= q <= k)]
                    stmts = []
                    ok = bool(occ)
                    for q in occ:
                        if q > 0 and is_p(toks[q - 1], "."):
                            ok = False
                            break
                        # must be at statement start, followed by `+=` / `=` (not `==`)
                        if not _stmt_pos(toks[:q]):
                            ok = False
                            break
                        if is_p(toks[q + 1], "+") and is_p(toks[q + 2], "="):
                            e0 = q + 3
                        elif is_p(toks[q + 1], "=") and not is_p(toks[q + 2], "="):
                            e0 = q + 2
                        else:
                            ok = False
                            break
                        e1 = e0
                        while not is_p(toks[e1], ";"):
                            e1 += 1
                        if not _pure_tokens(toks[e0:e1]) or any(toks[z].text == name for z in range(e0, e1)):
                            ok = False
                            break
                        stmts.append((q, e1))
                    if ok:
                        for (a, b) in sorted(stmts, reverse=True):
                            au.note("D", "dead counter update: " + render(toks[a:b + 1]))
                            del toks[a:b + 1]
                        # declaration index unchanged if all stmts are after it
                        au.note("D", "dead counter: " + render(toks[i:k + 1]))
                        del toks[i:k + 1]
                        changed = True
                        continue
            i += 1
    return toks


def rule_D_attrs(toks, au, names):
    """drop outer attributes  #[NAME ...]  for NAME in names (thiserror / serde display attributes: no run-time meaning
    for the variant set)"""
    out, i, n = [], 0, len(toks)
    while i < n:
        t = toks[i]
        if is_p(t, "#") and i + 2 < n and is_p(toks[i + 1], "[") and toks[i + 2].kind == "id" and toks[i + 2].text in names:
            k = match_close(toks, i + 1)
            au.note("D", "attribute " + render(toks[i:k + 1]))
            if k + 1 < n:
                toks[k + 1].ws = t.ws + toks[k + 1].ws if not toks[k + 1].ws.strip() else toks[k + 1].ws
            i = k + 1
            continue
        out.append(t)
        i += 1
    return out


def rule_D_calls(toks, au, names):
    """drop statements of the form  NAME.method(...);  /  NAME(...);  for receiver names listed in the recipe
    (tracing spans, metrics) -- whitelist is part of the recipe and recorded in the audit"""
    out, i, n = [], 0, len(toks)
    while i < n:
        t = toks[i]
        # `.method` entries: statements  IDENT.method(...);  on ANY bare local (a statistics counter, whatever it is called): the result
        # is discarded and the receiver is a plain identifier, so nothing the contracts talk about can depend on it
        by_method = t.kind == "id" and _stmt_pos(out) and i + 3 < n and is_p(toks[i + 1], ".") and ("." + toks[i + 2].text) in names \
            and is_p(toks[i + 3], "(") and t.text not in ("self", "st", "fx")
        if (t.kind == "id" and t.text in names and _stmt_pos(out)) or by_method:
            k = i + 1
            depth = 0
            while not (is_p(toks[k], ";") and depth == 0):
                if toks[k].kind == "p" and toks[k].text in OPEN:
                    depth += 1
                elif toks[k].kind == "p" and toks[k].text in CLOSE:
                    depth -= 1
                k += 1
            au.note("D", render(toks[i:k + 1]))
            i = k + 1
            continue
        out.append(t)
        i += 1
    return out


# ------------------------------------------------------------------ rule A (tasks whose handle is awaited)
def rule_A_spawn_expr(toks, au):
    """EXPRESSION  tokio::spawn(async move { B })   or   tokio::spawn({ let X = Arc::clone(&X); .. async move { B } })
         ->   vx_spawned({ B })
    i.e. the task's body is executed at the spawn point and the expression denotes what AWAITING its JoinHandle yields
    (Ok(value of B); shim).  The `let X = Arc::clone(&X);` prelude (same name on both sides: another handle on the same object) is
    dropped.  What is lost: the task runs concurrently with the spawner, and it goes on running when the spawner stops waiting for it -
    which is the point of spawning it (the shim records `Effect::OwnTask`, so that an obligation can demand it)."""
    i = 0
    while i < len(toks):
        if is_id(toks[i], "tokio") and texts(toks, i + 1, 4) == [":", ":", "spawn", "("] and not _stmt_pos(toks[:i]):
            close = match_close(toks, i + 4)
            j = i + 5
            inner_close = None
            if is_p(toks[j], "{"):
                inner_close = match_close(toks, j)
                if inner_close != close - 1:
                    i += 1
                    continue
                j += 1
                # prelude: let X = Arc::clone(&X);
                while is_id(toks[j], "let") and toks[j + 1].kind == "id" and texts(toks, j + 2, 7) == ["=", "Arc", ":", ":", "clone", "(", "&"] \
                        and toks[j + 9].text == toks[j + 1].text and texts(toks, j + 10, 2) == [")", ";"]:
                    j += 12
            if not is_id(toks[j], "async"):
                i += 1
                continue
            j += 1
            if is_id(toks[j], "move"):
                j += 1
            if not is_p(toks[j], "{"):
                i += 1
                continue
            bclose = match_close(toks, j)
            if bclose != (inner_close - 1 if inner_close is not None else close - 1):
                i += 1
                continue
            body = toks[j:bclose + 1]
            au.note("A", "tokio::spawn(async move { B }) as an awaited expression -> vx_spawned({ B })")
            new = [Tok("id", "vx_spawned", toks[i].ws), Tok("p", "(", "")] + [t.copy() for t in body] + [Tok("p", ")", "")]
            toks[i:close + 1] = new
            i += len(new)
            continue
        i += 1
    return toks


# ------------------------------------------------------------------ rule A (detached tasks)
def rule_A_spawn(toks, au):
    """tokio::spawn(async move { B }[.instrument(S)]);   as a statement whose JoinHandle is discarded
         ->   { B }
    i.e. the detached task's body is executed at the spawn point (sequentialisation).  Accepted only when B does not
    mention `self`, `return` or `?` (it reads moved captures only, so its inputs are fixed at the spawn point); what
    is lost is the interleaving of B with the spawner's later statements."""
    i = 0
    while i < len(toks):
        if is_id(toks[i], "tokio") and texts(toks, i + 1, 4) == [":", ":", "spawn", "("] and _stmt_pos(toks[:i]) \
                and is_id(toks[i + 5], "async"):
            close = match_close(toks, i + 4)
            if not (close + 1 < len(toks) and is_p(toks[close + 1], ";")):
                i += 1
                continue
            j = i + 6
            if is_id(toks[j], "move"):
                j += 1
            if not is_p(toks[j], "{"):
                i += 1
                continue
            bclose = match_close(toks, j)
            rest = [t.text for t in toks[bclose + 1:close]]
            if rest and not (rest[:3] == [".", "instrument", "("] and match_close(toks, bclose + 3) + 1 >= close - (1 if rest[-1] == "," else 0)):
                raise Undecided("tokio::spawn argument is not `async move { .. }[.instrument(..)]`")
            body = toks[j:bclose + 1]
            btxt = [t.text for t in body if t.kind != "str"]
            if "self" in btxt or "return" in btxt or "?" in btxt:
                raise Undecided("spawned task body mentions self / return / ?: outside the sequentialisation rule")
            au.note("A", "detached tokio::spawn(async move { B }) -> { B } at the spawn point")
            body[0] = body[0].copy()
            body[0].ws = toks[i].ws
            toks[i:close + 2] = body
            continue
        i += 1
    return toks


# ------------------------------------------------------------------ rule A
def rule_A(toks, au):
    # tokio::join!(a, b) (await both to completion) -> vx_join2(a, b)
    while True:
        z = find_seq(toks, ["tokio", ":", ":", "join", "!", "("])
        if z < 0:
            break
        au.note("A", "tokio::join!(a, b) -> vx_join2(a, b)")
        toks[z:z + 5] = [Tok("id", "vx_join2", toks[z].ws)]
    out, i, n = [], 0, len(toks)
    while i < n:
        t = toks[i]
        if is_p(t, ".") and i + 1 < n and is_id(toks[i + 1], "await"):
            au.note("A", ".await")
            i += 2
            continue
        if is_id(t, "async") and i + 1 < n and is_id(toks[i + 1], "fn"):
            au.note("A", "async fn")
            nt = toks[i + 1]
            nt.ws = t.ws
            i += 1
            continue
        out.append(t)
        i += 1
    return out


# ------------------------------------------------------------------ rule R
PATH_RENAMES = [
    (["std", ":", ":", "cmp", ":", ":", "min"], "vx_min"),
    (["std", ":", ":", "cmp", ":", ":", "max"], "vx_max"),
    (["u16", ":", ":", "from_be_bytes"], "vx_u16_from_be_bytes"),
    (["u32", ":", ":", "from_be_bytes"], "vx_u32_from_be_bytes"),
]
METHOD_RENAMES = {"to_be_bytes": "vx_to_be_bytes"}


def rule_R(toks, au, opts=None):
    opts = opts or {}
    # path renames
    for pat, rep in PATH_RENAMES:
        while True:
            i = find_seq(toks, pat)
            if i < 0:
                break
            au.note("R", "".join(pat) + " -> " + rep)
            toks[i:i + len(pat)] = [Tok("id", rep, toks[i].ws)]
    # std::io::X -> io::X  (the shim module `io`)
    while True:
        i = find_seq(toks, ["std", ":", ":", "io", ":", ":"])
        if i < 0:
            break
        au.note("R", "std::io:: -> io:: (shim module)")
        toks[i + 3].ws = toks[i].ws
        del toks[i:i + 3]
    # crate::util::X -> X  (the items of util - AnyTlsError, Result, ... - are in scope at the top level of the assembled file)
    while True:
        i = find_seq(toks, ["crate", ":", ":", "util", ":", ":"])
        if i < 0:
            break
        au.note("R", "crate::util:: -> top-level items")
        toks[i + 6].ws = toks[i].ws
        del toks[i:i + 6]
    # std::net::X -> X  (shim address types)
    while True:
        i = find_seq(toks, ["std", ":", ":", "net", ":", ":"])
        if i < 0:
            break
        au.note("R", "std::net:: -> shim address types")
        toks[i + 6].ws = toks[i].ws
        del toks[i:i + 6]
    out, i = [], 0
    n = len(toks)
    while i < n:
        t = toks[i]
        # format!(…) -> vx_fmt()
        if is_id(t, "format") and texts(toks, i + 1, 1) == ["!"] and toks[i + 2].text in OPEN:
            k = match_close(toks, i + 2)
            lit = toks[i + 3].text if toks[i + 3].kind == "str" else ""
            plain = re.sub(r"\{[^{}]*\}", "", lit.strip('"').replace("{{", "x").replace("}}", "x"))
            name_ = "vx_fmt_nonempty" if plain else "vx_fmt"
            au.note("R", f"format!(…) -> {name_}()")
            out += [Tok("id", name_, t.ws), Tok("p", "(", ""), Tok("p", ")", "")]
            i = k + 1
            continue
        # .to_be_bytes() -> .vx_to_be_bytes()
        if is_p(t, ".") and toks[i + 1].kind == "id" and toks[i + 1].text in METHOD_RENAMES and is_p(toks[i + 2], "("):
            au.note("R", "." + toks[i + 1].text + " -> ." + METHOD_RENAMES[toks[i + 1].text])
            out += [t, Tok("id", METHOD_RENAMES[toks[i + 1].text], "")]
            i += 2
            continue
        # .map_err(ARG) -> .vx_map_err()
        if is_p(t, ".") and is_id(toks[i + 1], "map_err") and is_p(toks[i + 2], "("):
            k = match_close(toks, i + 2)
            arg = [x.text for x in toks[i + 3:k]]
            if "await" in arg or "self" in arg and False:
                raise Undecided("map_err closure with effects")
            nm_ = "vx_map_err_s" if opts.get("maperr") == "string" else "vx_map_err"
            au.note("R", f".map_err(…) -> .{nm_}()")
            out += [t, Tok("id", nm_, ""), Tok("p", "(", ""), Tok("p", ")", "")]
            i = k + 1
            continue
        # .ok_or_else(closure) -> .vx_ok_or_s()   (None becomes an opaque error value)
        if is_p(t, ".") and is_id(toks[i + 1], "ok_or_else") and is_p(toks[i + 2], "("):
            k = match_close(toks, i + 2)
            au.note("R", ".ok_or_else(…) -> .vx_ok_or_s()")
            out += [t, Tok("id", "vx_ok_or_s", ""), Tok("p", "(", ""), Tok("p", ")", "")]
            i = k + 1
            continue
        # X.drain(..n);  ->  vx_drain_to(&mut X, n);
        if is_p(t, ".") and is_id(toks[i + 1], "drain") and texts(toks, i + 2, 3) == ["(", ".", "."] and _stmt_pos_expr(out):
            k = match_close(toks, i + 2)
            if is_p(toks[k + 1], ";"):
                s = _expr_start(out)
                recv = out[s:]
                ws0 = recv[0].ws
                recv[0] = recv[0].copy()
                recv[0].ws = ""
                new = [Tok("id", "vx_drain_to", ws0), Tok("p", "(", ""), Tok("p", "&", ""), Tok("id", "mut", ""), ] + \
                      [_w(recv[0], " ")] + recv[1:] + [Tok("p", ",", "")] + [_w(x, " " if idx == 0 else x.ws) for idx, x in enumerate(toks[i + 5:k])] + [Tok("p", ")", "")]
                del out[s:]
                out += new
                au.note("R", "X.drain(..n) -> vx_drain_to(&mut X, n)")
                i = k + 1
                continue
        # self: Pin<&mut Self>  ->  &mut self
        if is_id(t, "self") and texts(toks, i + 1, 7) == [":", "Pin", "<", "&", "mut", "Self", ">"]:
            au.note("R", "self: Pin<&mut Self> -> &mut self")
            out += [Tok("p", "&", t.ws), Tok("id", "mut", ""), Tok("id", "self", " ")]
            i += 8
            continue
        if is_id(t, "mut") and is_id(toks[i + 1], "self") and texts(toks, i + 2, 7) == [":", "Pin", "<", "&", "mut", "Self", ">"]:
            au.note("R", "mut self: Pin<&mut Self> -> &mut self")
            out += [Tok("p", "&", t.ws), Tok("id", "mut", ""), Tok("id", "self", " ")]
            i += 9
            continue
        out.append(t)
        i += 1
    toks = out
    toks = rule_select(toks, au)
    toks = rule_letchain(toks, au)
    toks = rule_whilelet(toks, au)
    toks = rule_drain(toks, au)
    toks = rule_for(toks, au, opts.get("for", "auto"), set(filter(None, opts.get("forref", "").split(","))))
    return toks


def rule_select(toks, au):
    """tokio::select! { [biased;] P1 = F1 => B1 [,] P2 = F2 => B2 [,] }
       ->  if vx_choice() { let P1 = F1; B1 } else { let P2 = F2; B2 }
    vx_choice() is nondeterministic: over-approximates which branch completes first (sound for safety obligations)."""
    i = 0
    while i < len(toks):
        k0 = None
        if is_id(toks[i], "tokio") and texts(toks, i + 1, 4) == [":", ":", "select", "!"] and is_p(toks[i + 5], "{"):
            k0 = i + 5
        elif is_id(toks[i], "select") and is_p(toks[i + 1], "!") and is_p(toks[i + 2], "{") and not (i > 0 and is_p(toks[i - 1], ":")):
            k0 = i + 2
        if k0 is not None:
            kend = match_close(toks, k0)
            inner = toks[k0 + 1:kend]
            q = 0
            if is_id(inner[0], "biased") and is_p(inner[1], ";"):
                q = 2
            arms = []
            while q < len(inner):
                # PAT = EXPR => BODY
                p0 = q
                depth = 0
                while not (is_p(inner[q], "=") and depth == 0 and not is_p(inner[q + 1], "=") and not is_p(inner[q + 1], ">")):
                    if inner[q].kind == "p" and inner[q].text in OPEN:
                        depth += 1
                    elif inner[q].kind == "p" and inner[q].text in CLOSE:
                        depth -= 1
                    q += 1
                pat = inner[p0:q]
                q += 1
                e0 = q
                depth = 0
                while not (is_p(inner[q], "=") and is_p(inner[q + 1], ">") and depth == 0):
                    if inner[q].kind == "p" and inner[q].text in OPEN:
                        depth += 1
                    elif inner[q].kind == "p" and inner[q].text in CLOSE:
                        depth -= 1
                    q += 1
                ex = inner[e0:q]
                q += 2
                if is_p(inner[q], "{"):
                    b1 = match_close(inner, q)
                    body = inner[q + 1:b1]
                    q = b1 + 1
                else:
                    b0 = q
                    depth = 0
                    while q < len(inner) and not (is_p(inner[q], ",") and depth == 0):
                        if inner[q].kind == "p" and inner[q].text in OPEN:
                            depth += 1
                        elif inner[q].kind == "p" and inner[q].text in CLOSE:
                            depth -= 1
                        q += 1
                    body = inner[b0:q]
                if q < len(inner) and is_p(inner[q], ","):
                    q += 1
                arms.append((pat, ex, body))
            if len(arms) != 2:
                raise Undecided(f"select! with {len(arms)} arms is outside the rewrite table")
            au.note("R", "tokio::select! (2 arms) -> if vx_choice() { .. } else { .. }")
            def arm(a):
                pat, ex, body = a
                return [Tok("p", "{", " "), Tok("id", "let", " ")] + [_w(x, " " if z == 0 else x.ws) for z, x in enumerate(pat)] + [Tok("p", "=", " ")] + \
                       [_w(x, " " if z == 0 else x.ws) for z, x in enumerate(ex)] + [Tok("p", ";", "")] + [_w(x, " " if z == 0 else x.ws) for z, x in enumerate(body)] + [Tok("p", "}", " ")]
            new = [Tok("id", "if", toks[i].ws), Tok("id", "vx_choice", " "), Tok("p", "(", ""), Tok("p", ")", "")] + arm(arms[0]) + [Tok("id", "else", " ")] + arm(arms[1])
            toks[i:kend + 1] = new
            i += len(new)
            continue
        i += 1
    return toks


def rule_whilelet(toks, au):
    """while let P = E { B }  ->  loop { match E { P => { B } _ => { break; } } }"""
    i = 0
    while i < len(toks):
        if is_id(toks[i], "while") and is_id(toks[i + 1], "let") and _stmt_pos(toks[:i]):
            j = _body_open(toks, i)
            hdr = toks[i + 2:j]
            k = 0
            depth = 0
            while not (is_p(hdr[k], "=") and depth == 0 and not is_p(hdr[k + 1], "=")):
                if hdr[k].kind == "p" and hdr[k].text in OPEN:
                    depth += 1
                elif hdr[k].kind == "p" and hdr[k].text in CLOSE:
                    depth -= 1
                k += 1
            pat, ex = hdr[:k], hdr[k + 1:]
            close = match_close(toks, j)
            au.note("R", "while let P = E -> loop { match E { P => .., _ => break } }")
            ws = toks[i].ws
            head = [Tok("id", "loop", ws), Tok("p", "{", " "), Tok("id", "match", " ")] + [_w(x, " " if q == 0 else x.ws) for q, x in enumerate(ex)] + \
                   [Tok("p", "{", " ")] + [_w(x, " " if q == 0 else x.ws) for q, x in enumerate(pat)] + [Tok("p", "=", " "), Tok("p", ">", "")]
            tail = [Tok("id", "_", " "), Tok("p", "=", " "), Tok("p", ">", ""), Tok("p", "{", " "), Tok("id", "break", " "), Tok("p", ";", ""),
                    Tok("p", "}", " "), Tok("p", "}", " "), Tok("p", "}", " ")]
            body = [_w(toks[j], " ")] + toks[j + 1:close + 1]
            toks[i:close + 1] = head + body + tail
            i += len(head)
            continue
        i += 1
    return toks


def rule_drain(toks, au):
    """for PAT in M.drain() { B }  ->  loop { match vx_take_any(&mut M) { Some(PAT) => { B } None => { break; } } }
    (HashMap::drain yields every entry exactly once in unspecified order and leaves the map empty;
    vx_take_any removes one unspecified entry)"""
    i = 0
    while i < len(toks):
        if is_id(toks[i], "for") and _stmt_pos(toks[:i]):
            j = _body_open(toks, i)
            hdr = toks[i + 1:j]
            k = 0
            depth = 0
            while k < len(hdr) and not (is_id(hdr[k], "in") and depth == 0):
                if hdr[k].kind == "p" and hdr[k].text in OPEN:
                    depth += 1
                elif hdr[k].kind == "p" and hdr[k].text in CLOSE:
                    depth -= 1
                k += 1
            if k < len(hdr):
                pat, it = hdr[:k], hdr[k + 1:]
                if len(it) >= 5 and [x.text for x in it[-4:]] == [".", "drain", "(", ")"]:
                    close = match_close(toks, j)
                    if _contains_kw_at_loop_level(toks[j:close + 1], ("continue", "break")):
                        raise Undecided("drain loop with continue/break is outside the rewrite table")
                    recv = it[:-4]
                    au.note("R", "for P in M.drain() -> loop { match vx_take_any(&mut M) }")
                    ws = toks[i].ws
                    head = [Tok("id", "loop", ws), Tok("p", "{", " "), Tok("id", "match", " "), Tok("id", "vx_take_any", " "), Tok("p", "(", ""),
                            Tok("p", "&", ""), Tok("id", "mut", "")] + [_w(x, " " if q == 0 else x.ws) for q, x in enumerate(recv)] + \
                           [Tok("p", ")", ""), Tok("p", "{", " "), Tok("id", "Some", " "), Tok("p", "(", "")] + \
                           [_w(x, "" if q == 0 else x.ws) for q, x in enumerate(pat)] + [Tok("p", ")", ""), Tok("p", "=", " "), Tok("p", ">", "")]
                    tail = [Tok("id", "None", " "), Tok("p", "=", " "), Tok("p", ">", ""), Tok("p", "{", " "), Tok("id", "break", " "), Tok("p", ";", ""),
                            Tok("p", "}", " "), Tok("p", "}", " "), Tok("p", "}", " ")]
                    body = [_w(toks[j], " ")] + toks[j + 1:close + 1]
                    toks[i:close + 1] = head + body + tail
                    i += len(head)
                    continue
        i += 1
    return toks


def _w(t, ws):
    c = t.copy()
    c.ws = ws
    return c


def _expr_start(out):
    """index in out where the receiver expression (a.b.c / a.b[..] chain) that ends at out[-1] starts"""
    k = len(out) - 1
    while k >= 0:
        t = out[k]
        if is_p(t, "?"):
            k -= 1
            continue
        if t.kind == "p" and t.text in CLOSE:
            k = match_open(out, k) - 1
            continue
        if t.kind in ("id", "num"):
            if k > 0 and is_p(out[k - 1], "."):
                k -= 2
                continue
            return k
        break
    return k + 1


def _stmt_pos_expr(out):
    s = _expr_start(out)
    return _stmt_pos(out[:s])


def split_top(cond, sep2):
    """split token list at top-level two-char operator sep2 (e.g. '&&')"""
    parts, cur, depth, k = [], [], 0, 0
    while k < len(cond):
        tt = cond[k]
        if tt.kind == "p" and tt.text in OPEN:
            depth += 1
        elif tt.kind == "p" and tt.text in CLOSE:
            depth -= 1
        if depth == 0 and tt.text == sep2[0] and k + 1 < len(cond) and cond[k + 1].text == sep2[1] and cond[k + 1].ws == "":
            parts.append(cur)
            cur = []
            k += 2
            continue
        cur.append(tt)
        k += 1
    parts.append(cur)
    return parts


def _body_open(toks, i):
    """index of the `{` opening the block of an if/while/for header starting at i"""
    depth, j = 0, i + 1
    while True:
        tt = toks[j]
        if tt.kind == "p" and tt.text in ("(", "["):
            depth += 1
        elif tt.kind == "p" and tt.text in (")", "]"):
            depth -= 1
            if depth < 0:
                raise IndexError("`if` without a block (guard inside a macro call)")
        elif depth == 0 and is_p(tt, "=") and j + 1 < len(toks) and is_p(toks[j + 1], ">") and not toks[j + 1].ws:
            raise IndexError("`if` without a block (match-arm guard)")
        elif is_p(tt, "{") and depth == 0:
            # struct literal in condition is not allowed in Rust without parens, so this is the body
            return j
        j += 1


def rule_letchain(toks, au):
    """if let P1 = E1 && let P2 = E2 [&& C] { B }   (no else)  ->  nested ifs"""
    i = 0
    while i < len(toks):
        if is_id(toks[i], "if") and (is_id(toks[i + 1], "let") or True):
            try:
                j = _body_open(toks, i)
            except IndexError:
                # a match-arm guard / a guard inside matches!(): not a statement-level if
                i += 1
                continue
            cond = toks[i + 1:j]
            parts = split_top(cond, "&&")
            if len(parts) > 1 and any(p and is_id(p[0], "let") for p in parts):
                close = match_close(toks, j)
                else_blk = None
                end = close
                if close + 1 < len(toks) and is_id(toks[close + 1], "else"):
                    # if A && B { X } else { Y }   ->   if A { if B { X } else { Y } } else { Y }   (Y duplicated textually)
                    if not is_p(toks[close + 2], "{"):
                        raise Undecided("let-chain with `else if` is outside the rewrite table")
                    eclose = match_close(toks, close + 2)
                    else_blk = [x.copy() for x in toks[close + 1:eclose + 1]]
                    end = eclose
                au.note("R", f"let-chain ({len(parts)} conjuncts{', else duplicated' if else_blk else ''}) -> nested if")
                new = []
                for idx, p in enumerate(parts):
                    p = [x.copy() for x in p]
                    p[0].ws = " "
                    new += [Tok("id", "if", toks[i].ws if idx == 0 else " ")] + p
                    if idx < len(parts) - 1:
                        new.append(Tok("p", "{", " "))
                body = toks[j:close + 1]
                tail = []
                for _ in range(len(parts) - 1):
                    if else_blk:
                        tail += [x.copy() for x in else_blk]
                    tail.append(Tok("p", "}", " "))
                if else_blk:
                    tail += [x.copy() for x in else_blk]
                toks[i:end + 1] = new + body + tail
        i += 1
    return toks


def _contains_kw_at_loop_level(body, kws):
    """does body (token list incl. braces) contain `continue`/`break` not nested in an inner loop/closure"""
    i, n = 1, len(body) - 1
    while i < n:
        t = body[i]
        if t.kind == "id" and t.text in ("for", "while", "loop"):
            j = _body_open(body, i) if t.text != "loop" else i + 1
            if is_p(body[j], "{"):
                i = match_close(body, j) + 1
                continue
        if t.kind == "id" and t.text in kws:
            return True
        i += 1
    return False


def rule_for(toks, au, mode, forref=()):
    """for P in E { B }  with continue/break inside B  ->  index loop over the collected vector:
       let vx_vN = E; let mut vx_iN: usize = 0; while vx_iN < vx_vN.len() { let P = vx_vN[vx_iN]; vx_iN += 1; B }
    `for P in E` over other iterables stays a native `for` (Verus supports those without continue)."""
    cnt = 0
    i = 0
    while i < len(toks):
        if is_id(toks[i], "for") and (i == 0 or not is_p(toks[i - 1], "<")) and _stmt_pos(toks[:i]):
            j = _body_open(toks, i)
            close = match_close(toks, j)
            body = toks[j:close + 1]
            hdr = toks[i + 1:j]
            # split at `in`
            k = 0
            depth = 0
            while not (is_id(hdr[k], "in") and depth == 0):
                if hdr[k].kind == "p" and hdr[k].text in OPEN:
                    depth += 1
                elif hdr[k].kind == "p" and hdr[k].text in CLOSE:
                    depth -= 1
                k += 1
            pat, it = hdr[:k], hdr[k + 1:]
            if _contains_kw_at_loop_level(body, ("continue", "break")) or mode == "all":
                cnt += 1
                v, ix = f"vx_v{cnt}", f"vx_i{cnt}"
                au.note("R", "for-with-continue -> index loop over " + render(it).strip())
                ind = toks[i].ws
                pre = toks_of(f"let {v} =") + [_w(x, " " if idx == 0 else x.ws) for idx, x in enumerate(it)] + \
                    toks_of(f"; let mut {ix}: usize = 0; while {ix} < {v}.len()")
                pre[0].ws = ind
                for x in pre[1:]:
                    if x.ws == "":
                        pass
                # `for x in S` over a slice parameter S named by the recipe (forref=S) yields references
                amp = "&" if (it and is_p(it[0], "&")) or (len(it) == 1 and it[0].text in forref) else ""
                first = toks_of(" let") + [_w(x, " " if idx == 0 else x.ws) for idx, x in enumerate(pat)] + toks_of(f" = {amp}{v}[{ix}]; {ix} += 1;")
                new = _space(pre) + [_w(body[0], " ")] + _space(first) + body[1:]
                toks[i:close + 1] = new
                i += len(pre)
                continue
        i += 1
    return toks


def _space(ts):
    """give freshly tokenised text single-space separation where the tokenizer left none"""
    out = []
    for k, t in enumerate(ts):
        c = t.copy()
        out.append(c)
    return out


# ------------------------------------------------------------------ rule H / L
class Hoist:
    def __init__(self, fields=(), thread=(), fx=(), fxarg="&mut st.fx", st="st", stparam="st: &mut SessionState",
                 locks=None, elide=None, aliases=None, nolock=(), count_acq=()):
        self.fields = set(fields)     # hoisted field names: self.F -> st.F
        self.thread = set(thread)     # self.m(..) -> self.m(.., st)
        self.fx = set(fx)             # x.m(..) -> x.m(.., &mut st.fx) for foreign effectful methods
        self.fxarg = fxarg
        self.st = st
        self.stparam = stparam
        self.locks = locks or {}      # field -> kind ("mutex" | "rwlock")
        self.elide = elide or {}      # lock elision of a foreign guard:  "reader_mutex" -> "rd"
        self.aliases = aliases or {}  # foreign lock path "heartbeat_state.last_received" -> hoisted field name
        self.nolock = set(nolock)     # hoisted fields that are atomics (no guard, no lock flag)
        self.count_acq = set(count_acq)  # locks whose acquisitions are counted in ghost state st.acq_F (one hold per operation obligations)
        self.acq = {}                 # filled by the assembler: method -> {field: mode}
        self.direct = {}              # collected: fn -> {field: mode}
        self.calls = {}               # collected: fn -> set(methods called on self)


LOCK_METHODS = ("lock", "read", "write")


def _block_end(toks, k):
    """index of the closing brace of the block enclosing position k"""
    depth = 0
    while True:
        tt = toks[k]
        if tt.kind == "p" and tt.text in OPEN:
            depth += 1
        elif tt.kind == "p" and tt.text in CLOSE:
            if depth == 0:
                return k
            depth -= 1
        k += 1


def collect_only_flag(lockflags, fname):
    return False


def rule_H(toks, au, h, lockflags=False, fname=None, force_flags=()):
    st = h.st
    # 1. guard elimination:  let [mut] G = self.F.(lock|read|write)() [.unwrap()];   (after rule A)
    #    also  let [mut] G = <alias path>.lock();  for foreign lock paths declared in the hoist table
    held = []
    # 0. a guard that lives for one expression only:  *<path>.(lock|read|write)()  is a read of the protected value under a lock
    #    taken and released inside the statement -> st.F  (no flag: nothing can be called while such a guard is alive)
    i = 0
    while i < len(toks):
        if is_p(toks[i], "*") and i + 1 < len(toks) and toks[i + 1].kind == "id":
            k = i + 1
            path = []
            while k < len(toks) and (toks[k].kind == "id" or is_p(toks[k], ".")):
                path.append(toks[k].text)
                k += 1
            if len(path) >= 3 and path[-1] in LOCK_METHODS and path[-2] == "." and texts(toks, k, 2) == ["(", ")"] \
                    and not is_p(toks[k + 2], "."):
                recv = "".join(path[:-2])
                F = None
                if path[0] == "self" and len(path) == 5 and path[2] in h.fields:
                    F = path[2]
                elif recv in h.aliases:
                    F = h.aliases[recv]
                if F is not None and F not in h.nolock:
                    au.note("H", f"one-expression guard *{recv}.{path[-1]}() read as {st}.{F}")
                    if fname is not None:
                        h.direct.setdefault(fname, {})
                        h.direct[fname][F] = max(h.direct[fname].get(F, 0), 1 if path[-1] == "read" else 2)
                    toks[i:k + 2] = [Tok("id", st, toks[i].ws), Tok("p", ".", ""), Tok("id", F, "")]
        i += 1
    i = 0
    while i < len(toks):
        if is_id(toks[i], "let"):
            j = i + 1
            if is_id(toks[j], "mut"):
                j += 1
            g = toks[j]
            hit = None
            if g.kind == "id" and is_p(toks[j + 1], "="):
                # collect receiver path tokens up to .lock()/.read()/.write()
                k = j + 2
                path = []
                while k < len(toks) and (toks[k].kind == "id" or is_p(toks[k], ".")):
                    path.append(toks[k].text)
                    k += 1
                # path like ['self','.','F','.','lock'] then '(' ')'
                if len(path) >= 3 and path[-1] in LOCK_METHODS and path[-2] == "." and texts(toks, k, 2) == ["(", ")"]:
                    recv = "".join(path[:-2])
                    how = path[-1]
                    F = None
                    if path[0] == "self" and len(path) == 5 and path[2] in h.fields:
                        F = path[2]
                    elif recv in h.aliases:
                        F = h.aliases[recv]
                    if F is not None:
                        e = k + 2
                        if texts(toks, e, 4) == [".", "unwrap", "(", ")"]:
                            e += 4
                        if is_p(toks[e], ";"):
                            hit = (F, g.text, how, e)
            if hit:
                    F, G, how, e = hit
                    scope_end = _block_end(toks, e + 1)
                    au.note("H", f"guard `{G}` = {recv}.{how}() eliminated")
                    mode = 1 if how == "read" else 2
                    if fname is not None:
                        h.direct.setdefault(fname, {})
                        h.direct[fname][F] = max(h.direct[fname].get(F, 0), mode)
                    new = []
                    # the flag matters only if a state-threading call happens while the guard is alive
                    flag = False
                    if lockflags:
                        for q in range(e + 1, scope_end - 2):
                            if is_id(toks[q], "self") and is_p(toks[q + 1], ".") and toks[q + 2].text in h.thread and is_p(toks[q + 3], "("):
                                flag = True
                        # recipe opt lockflag=F: keep the flag for F even when no threaded call happens under the guard (an injected
                        # obligation talks about it)
                        if F in force_flags:
                            flag = True
                    if flag:
                        new += _ghost(f"proof {{ vx_held_{F} = {mode}int; }}", toks[i].ws)
                        if F not in held:
                            held.append(F)
                    if F in h.count_acq and not collect_only_flag(lockflags, fname):
                        new += _ghost(f"proof {{ {st}.acq_{F} = {st}.acq_{F} + 1; }}", toks[i].ws if not flag else " ")
                        au.note("L", f"ghost acquisition counter {st}.acq_{F} += 1")
                    m = e + 1
                    while m < scope_end:
                        tt = toks[m]
                        if is_id(tt, "drop") and texts(toks, m + 1, 4) == ["(", G, ")", ";"] and not (new and is_p(new[-1], ".")):
                            au.note("H", f"drop({G}) removed")
                            if flag:
                                new += _ghost(f"proof {{ vx_held_{F} = 0int; }}", tt.ws)
                            m += 5
                            continue
                        if tt.kind == "id" and tt.text == G and not (new and is_p(new[-1], ".")) \
                                and not (m + 1 < scope_end and is_p(toks[m + 1], ":") and not is_p(toks[m + 2], ":")):
                            # `*G` deref of a guard is a deref of the protected value: st.F is the value itself
                            if new and is_p(new[-1], "*") and (len(new) < 2 or new[-2].kind == "p" and new[-2].text not in (")", "]")):
                                star = new.pop()
                                new += [Tok("id", st, star.ws), Tok("p", ".", ""), Tok("id", F, "")]
                            else:
                                new += [Tok("id", st, tt.ws), Tok("p", ".", ""), Tok("id", F, "")]
                            m += 1
                            continue
                        new.append(tt)
                        m += 1
                    if flag:
                        rel = _ghost(f"proof {{ vx_held_{F} = 0int; }}", " ")
                        if new and new[-1].kind == "p" and new[-1].text in (";", "}"):
                            new += rel
                        else:
                            # block ends in a trailing expression: release before it if it is simple (no blocks, no threaded calls)
                            q = len(new)
                            depth = 0
                            while q > 0:
                                tq = new[q - 1]
                                if tq.kind == "p" and tq.text in (")", "]"):
                                    depth += 1
                                elif tq.kind == "p" and tq.text in ("(", "["):
                                    depth -= 1
                                elif depth == 0 and tq.kind == "p" and tq.text in (";", "}", "{"):
                                    break
                                elif tq.kind == "spec":
                                    break
                                q -= 1
                            tail = new[q:]
                            if any(x.kind == "p" and x.text in ("{", "}") for x in tail) or any(
                                    is_id(tail[z], "self") and z + 3 < len(tail) and tail[z + 2].text in h.thread for z in range(len(tail))):
                                raise Undecided("rule L: guarded block ends in a complex trailing expression")
                            new[q:q] = rel
                    toks[i:scope_end] = new
                    continue
        i += 1
    # 1b. one-shot guard uses:  self.F.lock().m(..)  /  *self.F.write() = v  /  self.F.read().clone()
    i = 0
    while i < len(toks):
        if is_id(toks[i], "self") and is_p(toks[i + 1], ".") and toks[i + 2].text in h.fields and is_p(toks[i + 3], ".") \
                and toks[i + 4].text in LOCK_METHODS and texts(toks, i + 5, 2) == ["(", ")"] and not (i > 0 and is_p(toks[i - 1], ".")):
            e = i + 7
            if texts(toks, e, 4) == [".", "unwrap", "(", ")"]:
                e += 4
            F = toks[i + 2].text
            au.note("H", f"temporary guard self.{F}.{toks[i+4].text}() eliminated")
            if fname is not None:
                mode = 1 if toks[i + 4].text == "read" else 2
                h.direct.setdefault(fname, {})
                h.direct[fname][F] = max(h.direct[fname].get(F, 0), mode)
            ws = toks[i].ws
            star = i > 0 and is_p(toks[i - 1], "*")
            rep = [Tok("id", st, ws), Tok("p", ".", ""), Tok("id", F, "")]
            if star:
                rep[0].ws = toks[i - 1].ws
                toks[i - 1:e] = rep
            else:
                toks[i:e] = rep
            continue
        i += 1
    # 2. self.F -> st.F   (field access only: not followed by `(`)
    out, i = [], 0
    while i < len(toks):
        t = toks[i]
        if is_id(t, "self") and i + 2 < len(toks) and is_p(toks[i + 1], ".") and toks[i + 2].text in h.fields \
                and not (out and is_p(out[-1], ".")) and not is_p(toks[i + 3], "("):
            au.note("H", f"self.{toks[i+2].text} -> {st}.{toks[i+2].text}")
            out.append(Tok("id", st, t.ws))
            i += 1
            continue
        out.append(t)
        i += 1
    toks = out
    # 3. thread st through self.m(...) for m in thread; append fx for fx methods; rule L asserts
    i = 0
    lcount = 0
    while i < len(toks):
        t = toks[i]
        # free / path calls of effectful shims:  name(..)  /  Path::name(..)
        if t.kind == "id" and t.text in h.fx and i + 1 < len(toks) and is_p(toks[i + 1], "(") and not (i > 0 and (is_p(toks[i - 1], ".") or is_id(toks[i - 1], "fn"))):
            k = match_close(toks, i + 1)
            empty = (k == i + 2) or is_p(toks[k - 1], ",")
            ins = toks_of(("" if empty else ", ") + h.fxarg)
            for q, x in enumerate(ins):
                if q > 0 and x.ws == "" and is_p(ins[q - 1], ","):
                    x.ws = " "
            toks[k:k] = ins
            au.note("H", f"{t.text}(…, {h.fxarg})")
            i = i + 2      # go on INSIDE the argument list: nested effectful calls get their log argument too
            continue
        if is_p(t, ".") and toks[i + 1].kind == "id" and is_p(toks[i + 2], "("):
            name = toks[i + 1].text
            recv_self = i > 0 and is_id(toks[i - 1], "self") and not (i > 1 and is_p(toks[i - 2], "."))
            extra = None
            if recv_self and name in h.thread:
                extra = st
                if fname is not None:
                    h.calls.setdefault(fname, set()).add(name)
            elif name in h.fx and not recv_self:
                extra = h.fxarg
            if extra:
                k = match_close(toks, i + 2)
                empty = (k == i + 3)
                ins = toks_of(("" if empty else ", ") + extra)
                for q, x in enumerate(ins):
                    if q > 0 and x.ws == "" and ins[q - 1].text in (",",):
                        x.ws = " "
                toks[k:k] = ins
                au.note("H", f".{name}(…, {extra})")
                adv = k + len(ins)
                if lockflags and recv_self and name in h.acq and held:
                    asserts = []
                    for F, mode in sorted(h.acq[name].items()):
                        if F not in held:
                            continue
                        lcount += 1
                        cond = f"vx_held_{F} == 0" if mode == 2 else f"vx_held_{F} != 2"
                        asserts.append(f"assert({cond}); //# L_{F}_{name}_{lcount}")
                    if asserts:
                        sp = _stmt_start(toks, i - 1)
                        ws = toks[sp].ws
                        blk = Tok("spec", ws + "proof {\n" + "\n".join("            " + a for a in asserts) + "\n        }", "")
                        toks.insert(sp, blk)
                        au.note("L", f"no-reacquire obligation before self.{name}()")
                        adv += 1
                i = adv
                continue
        i += 1
    if lockflags and held:
        # declare the ghost flags at the start of the fn body
        bo = 0
        depth = 0
        while not (is_p(toks[bo], "{") and depth == 0):
            if toks[bo].kind == "p" and toks[bo].text in "([":
                depth += 1
            elif toks[bo].kind == "p" and toks[bo].text in ")]":
                depth -= 1
            bo += 1
        decl = "".join(f"\n        let ghost mut vx_held_{F}: int = 0int;" for F in held)
        toks.insert(bo + 1, Tok("spec", decl, ""))
        au.note("L", "ghost lock flags: " + ",".join(held))
    return toks


def _stmt_start(toks, k):
    """index of the first token of the statement containing position k"""
    depth = 0
    while k > 0:
        t = toks[k - 1]
        if t.kind == "spec":
            return k
        if t.kind == "p":
            if t.text in (")", "]"):
                depth += 1
            elif t.text in ("(", "["):
                if depth > 0:
                    depth -= 1
            elif depth == 0 and t.text in (";", "{", "}"):
                return k
            elif depth == 0 and t.text == ">" and k >= 2 and is_p(toks[k - 2], "=") and t.ws == "":
                raise Undecided("rule L: call directly in a match arm expression")
        k -= 1
    return 0


def _ghost(text, ws):
    ts = toks_of(text)
    ts[0].ws = ws
    for a, b in zip(ts, ts[1:]):
        if b.ws == "" and (a.kind in ("id", "num") and b.kind in ("id", "num")):
            b.ws = " "
    return ts


def rule_elide_lock(toks, au, field, param):
    """lock elision of a guard on a foreign object:  let mut G = X.F.lock(); ...G...  ->  ...param...
    (the recipe adds `param` to the signature).  Used for `reader_mutex.lock().await`."""
    i = 0
    while i < len(toks):
        if is_id(toks[i], "let"):
            j = i + 1
            if is_id(toks[j], "mut"):
                j += 1
            g = toks[j]
            k = j + 1
            if g.kind == "id" and is_p(toks[k], "="):
                # find `;`
                e = k
                depth = 0
                while not (is_p(toks[e], ";") and depth == 0):
                    if toks[e].kind == "p" and toks[e].text in OPEN:
                        depth += 1
                    elif toks[e].kind == "p" and toks[e].text in CLOSE:
                        depth -= 1
                    e += 1
                init = [t.text for t in toks[k + 1:e]]
                if field in init and init[-3:] == ["lock", "(", ")"] and init[-4] == ".":
                    G = g.text
                    scope_end = _block_end(toks, e + 1)
                    au.note("H", f"lock elision: guard `{G}` over {field} -> parameter `{param}`")
                    new = []
                    m = e + 1
                    while m < scope_end:
                        tt = toks[m]
                        if is_id(tt, "drop") and texts(toks, m + 1, 4) == ["(", G, ")", ";"]:
                            au.note("H", f"drop({G}) removed")
                            m += 5
                            continue
                        if tt.kind == "id" and tt.text == G and not (new and is_p(new[-1], ".")):
                            # `&mut G` (the guard lent to a callee) -> `param` (already a &mut; implicit reborrow)
                            if len(new) >= 2 and is_id(new[-1], "mut") and is_p(new[-2], "&"):
                                ws_ = new[-2].ws
                                del new[-2:]
                                new.append(Tok("id", param, ws_))
                            else:
                                new.append(Tok("id", param, tt.ws))
                            m += 1
                            continue
                        new.append(tt)
                        m += 1
                    toks[i:scope_end] = new
                    continue
        i += 1
    return toks


# ------------------------------------------------------------------ rule I (injection)
def add_param(toks, name_idx, param_text, au):
    """append a parameter to the fn whose name token is at name_idx"""
    j = name_idx + 1
    if is_p(toks[j], "<"):
        depth = 0
        while True:
            if is_p(toks[j], "<"):
                depth += 1
            elif is_p(toks[j], ">") and not is_p(toks[j - 1], "-"):
                depth -= 1
                if depth == 0:
                    break
            j += 1
        j += 1
    assert is_p(toks[j], "("), "fn parameter list not found"
    k = match_close(toks, j)
    # trailing comma?
    last = k - 1
    empty = (last == j)
    ins = toks_of(("" if (empty or is_p(toks[last], ",")) else ", ") + param_text)
    for q, x in enumerate(ins):
        if q > 0 and x.ws == "" and is_p(ins[q - 1], ","):
            x.ws = " "
    toks[k:k] = ins
    au.note("H", f"parameter `{param_text}` added")
    return len(ins)


def name_result(toks, name_idx, body_open, ret, au):
    """-> T {   becomes   -> (ret: T) {   (pure specification syntax)"""
    # find top-level `->` between param list close and body_open
    j = name_idx + 1
    while not is_p(toks[j], "("):
        j += 1
    k = match_close(toks, j)
    a = k + 1
    if a + 1 < body_open and is_p(toks[a], "-") and is_p(toks[a + 1], ">"):
        # return type ends at `where` or body_open
        e = a + 2
        while e < body_open and not is_id(toks[e], "where"):
            e += 1
        ty = toks[a + 2:e]
        new = [Tok("p", "(", " "), Tok("id", ret, ""), Tok("p", ":", "")] + [_w(x, " " if q == 0 else x.ws) for q, x in enumerate(ty)] + [Tok("p", ")", "")]
        toks[a + 2:e] = new
        au.note("I", f"result named `{ret}`")
        return len(new) - len(ty)
    return 0


def inject(toks, anchor, text, where, nth, au, lo=0, hi=None):
    pat = [t.text for t in toks_of(anchor)]
    occ = find_all_seq(toks, pat, lo, hi)
    if len(occ) < nth:
        raise Undecided(f"lost anchor for injected specification text: `{anchor}` #{nth}")
    i = occ[nth - 1]
    pos = i if where == "before" else i + len(pat)
    ins = [Tok("spec", "\n" + text.rstrip("\n") + "\n", "")]
    toks[pos:pos] = ins
    au.note("I", f"{where} `{anchor}`")
    return pos


WRAPPERS = [["Arc", ":", ":", "new"], ["tokio", ":", ":", "sync", ":", ":", "Mutex", ":", ":", "new"], ["RwLock", ":", ":", "new"],
            ["tokio", ":", ":", "sync", ":", ":", "RwLock", ":", ":", "new"], ["std", ":", ":", "sync", ":", ":", "Arc", ":", ":", "new"]]
ATOMICS = ("AtomicBool", "AtomicU8", "AtomicU32", "AtomicU64", "AtomicUsize")


def strip_wrappers(e):
    """Arc::new(X) / Mutex::new(X) / RwLock::new(X) -> X ;  [std::sync::atomic::]AtomicT::new(V) -> AtomicT::vx_new(V) (shim constructor)"""
    changed = True
    while changed:
        changed = False
        txt = [t.text for t in e]
        for w in WRAPPERS:
            n = len(w)
            if txt[:n] == w and len(e) > n and is_p(e[n], "(") and match_close(e, n) == len(e) - 1:
                e = e[n + 1:-1]
                changed = True
                break
        if changed:
            continue
        # atomic constructor
        k = 0
        if txt[:9] == ["std", ":", ":", "sync", ":", ":", "atomic", ":", ":"]:
            k = 9
        if len(txt) > k + 4 and txt[k] in ATOMICS and txt[k + 1:k + 4] == [":", ":", "new"] and is_p(e[k + 4], "(") and match_close(e, k + 4) == len(e) - 1:
            inner = e[k + 5:-1]
            e = [Tok("id", txt[k], ""), Tok("p", ":", ""), Tok("p", ":", ""), Tok("id", "vx_new", ""), Tok("p", "(", "")] + [_w(x, "" if q == 0 else x.ws) for q, x in enumerate(inner)] + [Tok("p", ")", "")]
    return e


def _fix_ws(ts):
    for a, b in zip(ts, ts[1:]):
        if b.ws == "" and a.kind in ("id", "num") and b.kind in ("id", "num"):
            b.ws = " "
    return ts
