// ---- shim dns_env: what util/dns_cache.rs (cache part) refers to (TRUSTED) ----
pub struct SocketAddr { pub ip: IpAddr, pub port: u16 }
impl SocketAddr {
    pub fn new(ip: IpAddr, port: u16) -> (r: Self) ensures r.ip == ip, r.port == port { SocketAddr { ip, port } }
    pub fn port(&self) -> (r: u16) ensures r == self.port { self.port }
    #[verifier::external_body]
    pub fn ip(&self) -> (r: IpAddr) ensures r == self.ip { unimplemented!() }
}
impl Clone for SocketAddr { #[verifier::external_body] fn clone(&self) -> (r: Self) ensures r == *self { unimplemented!() } }
impl Copy for SocketAddr {}
impl Clone for IpAddr { #[verifier::external_body] fn clone(&self) -> (r: Self) ensures r == *self { unimplemented!() } }
impl Copy for IpAddr {}
#[derive(Clone, Copy)]
pub struct Instant { pub t: u64 }

impl PartialEq for Instant { fn eq(&self, o: &Instant) -> (r: bool) ensures r == (self.t == o.t) { self.t == o.t } }
impl vstd::std_specs::cmp::PartialEqSpecImpl for Instant {
    open spec fn obeys_eq_spec() -> bool { true }
    open spec fn eq_spec(&self, o: &Instant) -> bool { self.t == o.t }
}
impl PartialOrd for Instant {
    fn partial_cmp(&self, o: &Instant) -> (r: Option<core::cmp::Ordering>) { if self.t < o.t { Some(core::cmp::Ordering::Less) } else if self.t == o.t { Some(core::cmp::Ordering::Equal) } else { Some(core::cmp::Ordering::Greater) } }
}
impl vstd::std_specs::cmp::PartialOrdSpecImpl for Instant {
    open spec fn obeys_partial_cmp_spec() -> bool { true }
    open spec fn partial_cmp_spec(&self, o: &Instant) -> Option<core::cmp::Ordering> { if self.t < o.t { Some(core::cmp::Ordering::Less) } else if self.t == o.t { Some(core::cmp::Ordering::Equal) } else { Some(core::cmp::Ordering::Greater) } }
}

impl Instant {
    #[verifier::external_body] pub fn now() -> (r: Instant) { unimplemented!() }
    // `a <= b` on instants (rule R: comparison operator on a shimmed type)
    #[verifier::external_body] pub fn vx_le(&self, o: &Instant) -> (r: bool) { self.t <= o.t }
}
// HashMap<String, V> keyed by host name, as a ghost map over the key's characters
#[verifier::external_body]
#[verifier::reject_recursive_types(K)]
#[verifier::reject_recursive_types(V)]
pub struct HashMap<K, V> { _k: std::marker::PhantomData<K>, _v: std::marker::PhantomData<V> }
impl<V> HashMap<String, V> {
    pub uninterp spec fn view(&self) -> Map<Seq<char>, V>;
    #[verifier::external_body]
    pub fn get(&self, k: &str) -> (r: Option<&V>)
        ensures r is Some <==> self@.contains_key(k@), r is Some ==> *r->Some_0 == self@[k@]
    { unimplemented!() }
}
impl<V> HashMap<String, V> {
    #[verifier::external_body]
    pub fn insert(&mut self, k: String, v: V) -> (r: Option<V>) ensures final(self)@ == old(self)@.insert(k@, v) { unimplemented!() }
    // a mutable reference into the map: the entry's final value is the map's final value at that key
    #[verifier::external_body]
    pub fn get_mut(&mut self, k: &str) -> (r: Option<&mut V>)
        ensures old(self)@.contains_key(k@) ==> r is Some && *(r->Some_0) == old(self)@[k@] && final(self)@ == old(self)@.insert(k@, *final(r->Some_0)),
                !old(self)@.contains_key(k@) ==> r is None && final(self)@ == old(self)@
    { unimplemented!() }
}
// `known`: ghost history - every (host, address) pair the resolver has ever returned; the code never touches it
pub struct DnsState { pub inner: HashMap<String, CacheEntry>, pub known: Ghost<Set<(Seq<char>, IpAddr)>> }
// the cache's history invariant: every cached address of a host is an address the resolver returned FOR THAT HOST
pub open spec fn cache_sound(st: &DnsState) -> bool {
    forall|h: Seq<char>, i: int| #![trigger st.inner@[h].addresses@[i]] st.inner@.contains_key(h) && 0 <= i < st.inner@[h].addresses@.len() ==> st.known@.contains((h, st.inner@[h].addresses@[i].ip))
}
pub struct DnsCache { pub _p: () }
// Instant::now() + DEFAULT_TTL
#[verifier::external_body] pub fn vx_expiry() -> (r: Instant) { unimplemented!() }
// X.sort_unstable_by_key(closure): a permutation of X
#[verifier::external_body]
pub fn vx_sort<T>(v: &mut Vec<T>) ensures final(v)@.to_multiset() == old(v)@.to_multiset(), final(v)@.len() == old(v)@.len() { unimplemented!() }
#[verifier::external_body]
pub fn vx_clone_addrs(v: &Vec<SocketAddr>) -> (r: Vec<SocketAddr>) ensures r@ == v@ { unimplemented!() }
#[verifier::external_body]
pub fn vx_str_to_string(s: &str) -> (r: String) ensures r@ == s@ { unimplemented!() }
#[verifier::external_body]
pub fn vx_parse_IpAddr(s: &&str) -> (r: std::result::Result<IpAddr, ()>)
    ensures r is Ok ==> ip_display(r->Ok_0) == s@
{ unimplemented!() }
