// ---- shim io: std::io::{Error, ErrorKind, Result} as an opaque error with a kind (trusted) ----
// The extracted code refers to these as `io::…`; `std::io::…` is rewritten to `io::…` (rule R).
pub mod io {
    use super::*;
    #[derive(PartialEq, Eq, Clone, Copy, Debug)]
    pub enum ErrorKind { UnexpectedEof, BrokenPipe, InvalidInput, InvalidData, ConnectionReset, ConnectionAborted, TimedOut, Other }
    impl vstd::std_specs::cmp::PartialEqSpecImpl for ErrorKind {
        open spec fn obeys_eq_spec() -> bool { true }
        open spec fn eq_spec(&self, other: &ErrorKind) -> bool { *self == *other }
    }
    #[derive(Debug)]
    pub struct Error { pub k: ErrorKind }
    impl Error {
        #[verifier::external_body]
        pub fn new<E>(kind: ErrorKind, error: E) -> (r: Error) ensures r.k == kind { Error { k: kind } }
        #[verifier::external_body]
        pub fn other<E>(error: E) -> (r: Error) { Error { k: ErrorKind::Other } }
        pub fn kind(&self) -> (r: ErrorKind) ensures r == self.k { self.k }
    }
    pub type Result<T> = std::result::Result<T, Error>;
}
pub struct VxStr;   // result of format!(…): message texts are in no property
#[verifier::external_body]
pub fn vx_fmt() -> (r: String) { String::new() }
