//! Replays of findings that are RECORDED, not repaired (status open in /verif/known_findings.json).
//! Each test asserts the property clause; it FAILS on the current tree by design and reproduces the finding.
use anytls_rs::client::{SessionPool, SessionPoolConfig};
use anytls_rs::padding::PaddingFactory;
use anytls_rs::session::Session;
use std::sync::Arc;
use std::time::Duration;

fn pf() -> Arc<PaddingFactory> { Arc::new(PaddingFactory::new(anytls_rs::padding::DEFAULT_PADDING_SCHEME.as_bytes()).unwrap()) }

/// F-C08-a  stream.poll_shutdown.shutdown_tells_the_peer_end_of_stream
#[tokio::test]
async fn f_c08_a_shutdown_emits_fin() {
    use tokio::io::AsyncWriteExt;
    use tokio_util::codec::Decoder;
    let (a, b) = tokio::io::duplex(1 << 20);
    let (ar, aw) = tokio::io::split(a);
    let (mut br, _bw) = tokio::io::split(b);
    let s = Arc::new(Session::new_client(ar, aw, pf(), None));
    s.clone().start_client().await.unwrap();
    let (stream, _rx) = s.open_stream().await.unwrap();
    s.disable_buffering();
    let id = stream.id();
    s.write_data_frame(id, bytes::Bytes::from_static(b"bye")).await.unwrap();
    // half-close the sending side
    let mut st = Arc::try_unwrap(stream).ok().map(Some).unwrap_or(None);
    if let Some(st) = st.as_mut() { st.shutdown().await.unwrap(); }
    tokio::time::sleep(Duration::from_millis(200)).await;
    let mut buf = bytes::BytesMut::new();
    let mut tmp = vec![0u8; 65536];
    loop {
        match tokio::time::timeout(Duration::from_millis(200), tokio::io::AsyncReadExt::read(&mut br, &mut tmp)).await { Ok(Ok(n)) if n > 0 => buf.extend_from_slice(&tmp[..n]), _ => break }
    }
    let mut c = anytls_rs::protocol::FrameCodec;
    let mut fin = false;
    while let Some(f) = c.decode(&mut buf).unwrap() { if f.cmd == anytls_rs::protocol::Command::Fin && f.stream_id == id { fin = true; } }
    assert!(fin, "the stream was shut down but no FIN frame for stream {} reached the wire: the peer never sees end of stream", id);
}
