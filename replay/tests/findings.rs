//! One test per recorded finding: each asserts the CONTRACT CLAUSE whose proof obligation fails,
//! on the concrete witness recorded in /verif/known_findings.json.  A test that fails reproduces
//! the finding on the real code; after the corresponding `fix:` commit it passes.
use anytls_rs::padding::PaddingFactory;
use anytls_rs::protocol::{Command, Frame, FrameCodec};
use anytls_rs::session::{Session, StreamReader};
use bytes::{Bytes, BytesMut};
use std::pin::Pin;
use std::sync::{Arc, Mutex};
use std::task::{Context, Poll};
use std::time::Duration;
use tokio::io::{AsyncReadExt, AsyncWrite, AsyncWriteExt};
use tokio_util::codec::{Decoder, Encoder};

#[derive(Clone, Default)]
struct Rec(Arc<Mutex<Vec<Vec<u8>>>>);
impl AsyncWrite for Rec {
    fn poll_write(self: Pin<&mut Self>, _: &mut Context<'_>, b: &[u8]) -> Poll<std::io::Result<usize>> {
        self.0.lock().unwrap().push(b.to_vec());
        Poll::Ready(Ok(b.len()))
    }
    fn poll_flush(self: Pin<&mut Self>, _: &mut Context<'_>) -> Poll<std::io::Result<()>> { Poll::Ready(Ok(())) }
    fn poll_shutdown(self: Pin<&mut Self>, _: &mut Context<'_>) -> Poll<std::io::Result<()>> { Poll::Ready(Ok(())) }
}
struct Bad;
impl AsyncWrite for Bad {
    fn poll_write(self: Pin<&mut Self>, _: &mut Context<'_>, _b: &[u8]) -> Poll<std::io::Result<usize>> {
        Poll::Ready(Err(std::io::Error::new(std::io::ErrorKind::BrokenPipe, "x")))
    }
    fn poll_flush(self: Pin<&mut Self>, _: &mut Context<'_>) -> Poll<std::io::Result<()>> { Poll::Ready(Ok(())) }
    fn poll_shutdown(self: Pin<&mut Self>, _: &mut Context<'_>) -> Poll<std::io::Result<()>> { Poll::Ready(Ok(())) }
}
fn parse_all(mut b: BytesMut) -> (Vec<Frame>, usize) {
    let mut c = FrameCodec;
    let mut v = vec![];
    while let Some(f) = c.decode(&mut b).unwrap() { v.push(f); }
    (v, b.len())
}
fn default_pf() -> Arc<PaddingFactory> {
    Arc::new(PaddingFactory::new(anytls_rs::padding::DEFAULT_PADDING_SCHEME.as_bytes()).unwrap())
}

/// F-C03-a  codec.encode.length_field_equals_payload(_oversize): `res is Ok ==> length field == payload that follows`
#[test]
fn f_c03_a_encode_oversize() {
    let mut c = FrameCodec;
    let mut dst = BytesMut::new();
    let r = c.encode(Frame::data(7, Bytes::from(vec![0xAAu8; 65536])), &mut dst);
    if r.is_ok() {
        let len_field = u16::from_be_bytes([dst[5], dst[6]]) as usize;
        assert_eq!(len_field, dst.len() - 7, "length field {} but {} payload bytes follow", len_field, dst.len() - 7);
    } else {
        assert!(dst.is_empty(), "an encoder error must emit nothing");
    }
}

/// F-C01-a  a chunk larger than one frame can carry must still arrive complete (property C01)
#[tokio::test]
async fn f_c01_a_large_chunk_survives() {
    let rec = Rec::default();
    let s = Session::new_server(tokio::io::empty(), rec.clone(), default_pf());
    let data: Vec<u8> = (0..70000u32).map(|i| (i % 251) as u8).collect();
    s.write_data_frame(9, Bytes::from(data.clone())).await.unwrap();
    let all: Vec<u8> = rec.0.lock().unwrap().concat();
    let (frames, rest) = parse_all(BytesMut::from(&all[..]));
    assert_eq!(rest, 0, "stray bytes on the wire");
    let got: Vec<u8> = frames.iter().filter(|f| f.cmd == Command::Push && f.stream_id == 9).flat_map(|f| f.data.to_vec()).collect();
    assert_eq!(got, data, "stream 9 did not receive exactly the submitted chunk");
}

/// F-C01-b  stream_reader.read.zero_only_at_end_of_stream
#[tokio::test]
async fn f_c01_b_empty_chunk_is_not_eof() {
    let (tx, rx) = tokio::sync::mpsc::unbounded_channel();
    let mut r = StreamReader::new(1, rx);
    tx.send(Bytes::new()).unwrap();
    tx.send(Bytes::from_static(b"x")).unwrap();
    let mut buf = [0u8; 8];
    let n = r.read(&mut buf).await.unwrap();
    assert!(n > 0, "read returned 0 although 1 byte is still queued (a forwarder would take this for end of stream)");
}

/// F-C04-a  session_write.write_with_padding: everything after the payload is a sequence of well-formed Waste frames
#[tokio::test]
async fn f_c04_a_big_padding_keeps_wire_well_formed() {
    let rec = Rec::default();
    let pf = Arc::new(PaddingFactory::new(b"stop=3\n0=70000-70000\n1=70000-70000\n2=70000-70000").unwrap());
    let s = Session::new_client(tokio::io::empty(), rec.clone(), pf, None);
    s.write_data_frame(1, Bytes::from(vec![1u8; 10])).await.unwrap();
    s.write_data_frame(1, Bytes::from(vec![2u8; 10])).await.unwrap();
    let all: Vec<u8> = rec.0.lock().unwrap().concat();
    let (frames, rest) = parse_all(BytesMut::from(&all[..]));
    assert_eq!(rest, 0, "{} bytes left unparsed", rest);
    let real: Vec<_> = frames.iter().filter(|f| f.cmd != Command::Waste).map(|f| (f.cmd, f.stream_id, f.data.len())).collect();
    assert_eq!(real, vec![(Command::Push, 1, 10), (Command::Push, 1, 10)], "deleting the padding frames must leave exactly the submitted frames");
    for f in frames.iter().filter(|f| f.cmd == Command::Waste) { assert!(f.stream_id == 0 && f.data.iter().all(|b| *b == 0)); }
}

/// F-C04-b  no accepted scheme can make the sender fail or crash
#[tokio::test]
async fn f_c04_b_huge_scheme_values_do_not_crash() {
    let pf = PaddingFactory::new(b"stop=3\n0=3000000000-3000000000\n1=3000000000-3000000000\n2=4294967295-4294967295").unwrap();
    for line in 0..3 {
        for v in pf.generate_record_payload_sizes(line) { assert!(v == -1 || v > 0, "line {}: size {} is neither a check mark nor positive", line, v); }
    }
    let rec = Rec::default();
    let s = Session::new_client(tokio::io::empty(), rec.clone(), Arc::new(pf), None);
    let h = tokio::spawn(async move { s.write_data_frame(1, Bytes::from(vec![1u8; 10])).await });
    assert!(h.await.is_ok(), "sender task panicked");
}

/// F-C05-a  the first session packet is packet 1 (the preamble is packet 0)
#[tokio::test]
async fn f_c05_a_first_session_packet_uses_line_1() {
    let rec = Rec::default();
    let pf = Arc::new(PaddingFactory::new(b"stop=3\n0=30-30\n1=200-200\n2=300-300").unwrap());
    let s = Session::new_client(tokio::io::empty(), rec.clone(), pf, None);
    s.write_data_frame(1, Bytes::from(vec![1u8; 60])).await.unwrap();
    let lens: Vec<usize> = rec.0.lock().unwrap().iter().map(|w| w.len()).collect();
    assert_eq!(lens, vec![200], "first session packet (67 payload bytes) must be one 200-byte record (line 1), got {:?}", lens);
}

/// F-C09-a  Alert must leave the session in the state close() establishes
#[tokio::test]
async fn f_c09_a_alert_releases_waiters() {
    let (a, b) = tokio::io::duplex(1 << 20);
    let (ar, aw) = tokio::io::split(a);
    let (mut br, mut bw) = tokio::io::split(b);
    let s = Arc::new(Session::new_client(ar, aw, default_pf(), None));
    s.clone().start_client().await.unwrap();
    let (stream, synack_rx) = s.open_stream().await.unwrap();
    s.disable_buffering();
    s.write_data_frame(stream.id(), Bytes::from_static(b"hello")).await.unwrap();
    tokio::spawn(async move { let mut buf = vec![0u8; 65536]; loop { if br.read(&mut buf).await.unwrap_or(0) == 0 { break; } } });
    let mut c = FrameCodec;
    let mut out = BytesMut::new();
    c.encode(Frame::with_data(Command::Alert, 0, Bytes::from_static(b"boom")), &mut out).unwrap();
    bw.write_all(&out).await.unwrap();
    bw.flush().await.unwrap();
    tokio::time::sleep(Duration::from_millis(200)).await;
    assert!(s.is_closed());
    let r = tokio::time::timeout(Duration::from_millis(500), synack_rx).await;
    assert!(r.is_ok(), "pending open not resolved after Alert");
    let reader = stream.reader().clone();
    let r2 = tokio::time::timeout(Duration::from_millis(500), async move { let mut g = reader.lock().await; let mut b = [0u8; 8]; g.read(&mut b).await }).await;
    assert!(r2.is_ok(), "stream reader did not reach end-of-stream/error after Alert");
}

/// F-C09-b  a write on a failing transport must return (no self-deadlock on the writer lock)
#[tokio::test]
async fn f_c09_b_write_error_returns() {
    let s = Session::new_client(tokio::io::empty(), Bad, default_pf(), None);
    let r = tokio::time::timeout(Duration::from_secs(3), s.write_data_frame(1, Bytes::from_static(b"abc"))).await;
    assert!(r.is_ok(), "write on a failing transport did not complete within 3 s (self-deadlock)");
    assert!(r.unwrap().is_err());
    assert!(s.is_closed());
}

/// F-C09-c  session_recv.recv_loop.every_error_exit_left_the_session_closed
/// history: a frame handler fails (here: the server cannot encode its >65535-byte padding scheme for the
/// UpdatePaddingScheme reply); recv_loop returns Err and must not leave the session open without a receive loop
#[tokio::test]
async fn f_c09_c_frame_handler_failure_closes_session() {
    let mut scheme = String::from("stop=8\n");
    for i in 0..8000 { scheme.push_str(&format!("{}=100-200,c,300-400\n", i)); }
    assert!(scheme.len() > 65535);
    let pf = Arc::new(PaddingFactory::new(scheme.as_bytes()).unwrap());
    let (a, b) = tokio::io::duplex(1 << 20);
    let (ar, aw) = tokio::io::split(a);
    let (_br, mut bw) = tokio::io::split(b);
    let s = Arc::new(Session::new_server(ar, aw, pf));
    let s2 = s.clone();
    let h = tokio::spawn(async move { s2.recv_loop().await });
    let mut c = FrameCodec;
    let mut out = BytesMut::new();
    c.encode(Frame::with_data(Command::Settings, 0, Bytes::from_static(b"v=2\npadding-md5=00000000000000000000000000000000")), &mut out).unwrap();
    bw.write_all(&out).await.unwrap();
    bw.flush().await.unwrap();
    let r = tokio::time::timeout(Duration::from_secs(2), h).await.expect("recv_loop did not end").unwrap();
    assert!(r.is_err(), "the handler was expected to fail");
    assert!(s.is_closed(), "recv_loop ended with an error but left the session open (no receive loop, nobody is told)");
}

/// F-C07-a  dns_cache.vx_block_resolve.answer_carries_the_requested_port
/// history: the same host requested with two different ports within the cache lifetime
#[tokio::test]
async fn f_c07_a_cached_name_keeps_the_requested_port() {
    let a = anytls_rs::util::resolve_host_with_cache("localhost", 80).await.unwrap();
    let b = anytls_rs::util::resolve_host_with_cache("localhost", 443).await.unwrap();
    assert_eq!(a.port(), 80);
    assert_eq!(b.port(), 443, "localhost:443 was answered with {} (the port of the request that filled the cache)", b);
}

/// F-C05-b  auth.send_authentication.oversize_line0_not_sent_truncated
#[tokio::test]
async fn f_c05_b_preamble_padding_is_not_truncated() {
    let pf = Arc::new(PaddingFactory::new(b"stop=3\n0=70000-70000").unwrap());
    let mut out = Vec::new();
    let r = anytls_rs::send_authentication(&mut out, &[9u8; 32], &pf).await;
    if r.is_ok() {
        let declared = u16::from_be_bytes([out[32], out[33]]) as usize;
        assert!(declared == 70000 || declared == 65535, "line 0 prescribes 70000 bytes of padding, the preamble declares and carries {} (70000 mod 65536)", declared);
    }
}

