//! F-C12-a (repaired): pool housekeeping must not close a session that still carries streams
use anytls_rs::client::{SessionPool, SessionPoolConfig};
use anytls_rs::padding::PaddingFactory;
use anytls_rs::session::Session;
use std::sync::Arc;
use std::time::Duration;

fn pf() -> Arc<PaddingFactory> { Arc::new(PaddingFactory::new(anytls_rs::padding::DEFAULT_PADDING_SCHEME.as_bytes()).unwrap()) }

/// F-C12-a  pool.cleanup_expired.only_sessions_without_open_streams_are_destroyed
#[tokio::test(start_paused = true)]
async fn f_c12_a_reaper_spares_sessions_in_use() {
    let (a, _b) = tokio::io::duplex(1 << 20);
    let (ar, aw) = tokio::io::split(a);
    let s = Arc::new(Session::new_client(ar, aw, pf(), None));
    s.clone().start_client().await.unwrap();
    s.set_seq(1);
    let pool = SessionPool::with_config(SessionPoolConfig { check_interval: Duration::from_secs(3600), idle_timeout: Duration::from_secs(60), min_idle_sessions: 0 });
    pool.add_idle_session(s.clone()).await;
    let (_stream, _rx) = s.open_stream().await.unwrap();
    tokio::time::advance(Duration::from_secs(61)).await;
    pool.cleanup_expired().await;
    assert!(!s.is_closed(), "a session with a live stream was closed by pool housekeeping");
}

