// ---- shim accept_env: what the accept loops of the SOCKS5 and HTTP front-ends refer to (TRUSTED) ----
pub use std::sync::Arc;
pub struct Client { pub _p: () }
pub struct SocketAddr { pub _p: () }
pub struct TcpStream { pub ghost conn: int }
pub enum AEv { Accepted { conn: int }, Handed { conn: int } }
pub struct TcpListener { pub _p: () }
impl TcpListener {
    #[verifier::external_body] pub fn bind(addr: &str) -> (r: io::Result<TcpListener>) { unimplemented!() }
    #[verifier::external_body]
    pub fn accept(&self, fx: &mut Ghost<Seq<AEv>>) -> (r: io::Result<(TcpStream, SocketAddr)>)
        ensures r is Ok ==> final(fx)@ == old(fx)@.push(AEv::Accepted { conn: r->Ok_0.0.conn }), r is Err ==> final(fx)@ == old(fx)@
    { unimplemented!() }
}
// the per-connection handlers: everything that waits for ONE client happens inside them, i.e. in that connection's own task
#[verifier::external_body]
pub fn handle_socks5_connection(client_conn: TcpStream, client: Arc<Client>, fx: &mut Ghost<Seq<AEv>>) -> (r: Result<()>)
    ensures final(fx)@ == old(fx)@.push(AEv::Handed { conn: client_conn.conn })
{ unimplemented!() }
#[verifier::external_body]
pub fn handle_http_proxy_connection(client_conn: TcpStream, client: Arc<Client>, fx: &mut Ghost<Seq<AEv>>) -> (r: Result<()>)
    ensures final(fx)@ == old(fx)@.push(AEv::Handed { conn: client_conn.conn })
{ unimplemented!() }
// Functions that wait for bytes of one particular client.  Called from the accept loop they let a single stalled client
// wedge the listener for everybody; `may_wait_for_one_client()` is never established, so such a call is a failed obligation.
pub uninterp spec fn may_wait_for_one_client() -> bool;
#[verifier::external_body] pub fn authenticate(conn: &mut TcpStream) -> (r: Result<()>) requires may_wait_for_one_client() { unimplemented!() }
#[verifier::external_body] pub fn read_connection_request(conn: &mut TcpStream) -> (r: Result<((), u8)>) requires may_wait_for_one_client() { unimplemented!() }
#[verifier::external_body] pub fn read_http_header(conn: &mut TcpStream) -> (r: Result<(Vec<u8>, Vec<u8>)>) requires may_wait_for_one_client() { unimplemented!() }
// every accepted connection is handed to its handler at once, and nothing else happens to it: the log is a sequence of
// (Accepted c, Handed c) pairs
pub open spec fn paired(l: Seq<AEv>) -> bool decreases l.len() {
    l.len() == 0 || (l.len() >= 2 && l[l.len() - 2] is Accepted && l[l.len() - 1] == (AEv::Handed { conn: l[l.len() - 2]->Accepted_conn }) && paired(l.subrange(0, l.len() - 2)))
}
pub proof fn lemma_paired_push2(l: Seq<AEv>, c: int)
    requires paired(l) ensures paired(l.push(AEv::Accepted { conn: c }).push(AEv::Handed { conn: c }))
{
    let l2 = l.push(AEv::Accepted { conn: c }).push(AEv::Handed { conn: c });
    assert(l2.subrange(0, l2.len() - 2) =~= l);
}
