// ---- shim socks5_env ----
// ---- the client object as the front-ends see it (opaque): create_proxy_stream either establishes a tunnel to exactly
// the destination it was given or fails.  Its own body is unit `client` (address encoding + verdict wait).
// the log of one front-end connection: the tunnel it opened; the end of data it announced on that tunnel's stream (FIN); the hand-back of the session
pub ghost enum TunnelEv { Tunnel { host: Seq<char>, port: u16 }, Fin, Released }
pub struct ProxyStream { pub id: u32, pub ghost dest_host: Seq<char>, pub ghost dest_port: u16 }
impl ProxyStream {
    pub fn id(&self) -> (r: u32) ensures r == self.id { self.id }
    // Stream::send_fin (group `stream`)
    #[verifier::external_body] pub fn send_fin(&self, fx: &mut Ghost<Seq<TunnelEv>>) ensures final(fx)@ == old(fx)@.push(TunnelEv::Fin) { }
}
pub struct ProxySession { pub _p: () }
impl ProxySession { #[verifier::external_body] pub fn is_closed(&self) -> bool { unimplemented!() } }
pub struct Client { pub _p: () }
impl Client {
    // fx: ghost log of tunnels established by this front-end connection
    #[verifier::external_body]
    pub fn create_proxy_stream(&self, destination: (String, u16), fx: &mut Ghost<Seq<TunnelEv>>) -> (r: Result<(Arc<ProxyStream>, Arc<ProxySession>)>)
        ensures r is Ok ==> r->Ok_0.0.dest_host == destination.0@ && r->Ok_0.0.dest_port == destination.1
                    && final(fx)@ == old(fx)@.push(TunnelEv::Tunnel { host: destination.0@, port: destination.1 }),
                r is Err ==> final(fx)@ == old(fx)@
    { unimplemented!() }
    // Client::release_session (group `pool`)
    #[verifier::external_body]
    pub fn release_session(&self, session: Arc<ProxySession>, fx: &mut Ghost<Seq<TunnelEv>>) ensures final(fx)@ == old(fx)@.push(TunnelEv::Released) { }
}
pub use std::sync::Arc;
impl Clone for Socks5Addr { #[verifier::external_body] fn clone(&self) -> (r: Self) ensures r == *self { unimplemented!() } }
