// ---- shim bytes: `bytes::{Bytes, BytesMut, Buf, BufMut}` as byte sequences (trusted) ----
pub struct BytesMut { pub v: Vec<u8> }
#[derive(Debug, PartialEq, Eq)]
pub struct Bytes { pub v: Vec<u8> }

impl View for BytesMut { type V = Seq<u8>; open spec fn view(&self) -> Seq<u8> { self.v@ } }
impl View for Bytes { type V = Seq<u8>; open spec fn view(&self) -> Seq<u8> { self.v@ } }

impl Bytes {
    #[verifier::external_body]
    pub fn new() -> (r: Bytes) ensures r@ == Seq::<u8>::empty() { Bytes { v: Vec::new() } }
    #[verifier::external_body]
    pub fn len(&self) -> (r: usize) ensures r == self@.len(), r <= isize::MAX as usize { self.v.len() }
    #[verifier::external_body]
    pub fn is_empty(&self) -> (r: bool) ensures r == (self@.len() == 0) { self.v.is_empty() }
    #[verifier::external_body]
    pub fn as_ref(&self) -> (r: &[u8]) ensures r@ == self@ { &self.v[..] }
    #[verifier::external_body]
    pub fn copy_from_slice(s: &[u8]) -> (r: Bytes) ensures r@ == s@ { Bytes { v: s.to_vec() } }
    #[verifier::external_body]
    pub fn vx_from_vec(v: Vec<u8>) -> (r: Bytes) ensures r@ == v@ { Bytes { v } }
    #[verifier::external_body]
    pub fn split_to(&mut self, at: usize) -> (r: Bytes)
        requires at <= old(self)@.len()
        ensures r@ == old(self)@.subrange(0, at as int), final(self)@ == old(self)@.subrange(at as int, old(self)@.len() as int)
    { unimplemented!() }
    #[verifier::external_body]
    pub fn split_off(&mut self, at: usize) -> (r: Bytes)
        requires at <= old(self)@.len()
        ensures final(self)@ == old(self)@.subrange(0, at as int), r@ == old(self)@.subrange(at as int, old(self)@.len() as int)
    { unimplemented!() }
    #[verifier::external_body]
    pub fn slice(&self, r: std::ops::Range<usize>) -> (o: Bytes)
        requires r.start <= r.end <= self@.len()
        ensures o@ == self@.subrange(r.start as int, r.end as int)
    { unimplemented!() }
}

impl Clone for Bytes {
    #[verifier::external_body]
    fn clone(&self) -> (r: Bytes) ensures r@ == self@ { Bytes { v: self.v.clone() } }
}

impl BytesMut {
    #[verifier::external_body]
    pub fn new() -> (r: BytesMut) ensures r@ == Seq::<u8>::empty() { BytesMut { v: Vec::new() } }
    #[verifier::external_body]
    pub fn vx_from_slice(s: &[u8]) -> (r: BytesMut) ensures r@ == s@ { BytesMut { v: s.to_vec() } }
    #[verifier::external_body]
    pub fn with_capacity(n: usize) -> (r: BytesMut) ensures r@ == Seq::<u8>::empty() { BytesMut { v: Vec::new() } }
    #[verifier::external_body]
    pub fn len(&self) -> (r: usize) ensures r == self@.len(), r <= isize::MAX as usize { self.v.len() }
    #[verifier::external_body]
    pub fn is_empty(&self) -> (r: bool) ensures r == (self@.len() == 0) { self.v.is_empty() }
    #[verifier::external_body]
    pub fn as_ref(&self) -> (r: &[u8]) ensures r@ == self@ { &self.v[..] }
    #[verifier::external_body]
    pub fn capacity(&self) -> (r: usize) ensures r >= self@.len() { self.v.capacity() }
    #[verifier::external_body]
    pub fn remaining_mut(&self) -> (r: usize) { usize::MAX - self.v.len() }
    #[verifier::external_body]
    pub fn truncate(&mut self, n: usize) ensures final(self)@ == (if n < old(self)@.len() { old(self)@.subrange(0, n as int) } else { old(self)@ }) { }
    #[verifier::external_body]
    pub fn reserve(&mut self, additional: usize) ensures final(self)@ == old(self)@ { }
    #[verifier::external_body]
    pub fn clear(&mut self) ensures final(self)@ == Seq::<u8>::empty() { }
    #[verifier::external_body]
    pub fn advance(&mut self, cnt: usize)
        requires cnt <= old(self)@.len()
        ensures final(self)@ == old(self)@.subrange(cnt as int, old(self)@.len() as int)
    { }
    #[verifier::external_body]
    pub fn split_to(&mut self, at: usize) -> (r: BytesMut)
        requires at <= old(self)@.len()
        ensures r@ == old(self)@.subrange(0, at as int),
                final(self)@ == old(self)@.subrange(at as int, old(self)@.len() as int)
    { unimplemented!() }
    #[verifier::external_body]
    pub fn split_off(&mut self, at: usize) -> (r: BytesMut)
        requires at <= old(self)@.len()
        ensures final(self)@ == old(self)@.subrange(0, at as int),
                r@ == old(self)@.subrange(at as int, old(self)@.len() as int)
    { unimplemented!() }
    #[verifier::external_body]
    pub fn split(&mut self) -> (r: BytesMut)
        ensures r@ == old(self)@, final(self)@ == Seq::<u8>::empty()
    { unimplemented!() }
    #[verifier::external_body]
    pub fn freeze(self) -> (r: Bytes) ensures r@ == self@ { Bytes { v: self.v } }
    #[verifier::external_body]
    pub fn put_u8(&mut self, n: u8) ensures final(self)@ == old(self)@.push(n) { }
    #[verifier::external_body]
    pub fn put_u32(&mut self, n: u32) ensures final(self)@ == old(self)@ + be32(n) { }
    #[verifier::external_body]
    pub fn put_u16(&mut self, n: u16) ensures final(self)@ == old(self)@ + be16(n) { }
    #[verifier::external_body]
    pub fn put_slice(&mut self, s: &[u8]) ensures final(self)@ == old(self)@ + s@ { }
    #[verifier::external_body]
    pub fn extend_from_slice(&mut self, s: &[u8]) ensures final(self)@ == old(self)@ + s@ { }
}

pub trait Buf {
    spec fn rem(&self) -> Seq<u8>;
    fn get_u8(&mut self) -> (r: u8)
        requires old(self).rem().len() >= 1
        ensures r == old(self).rem()[0], final(self).rem() == old(self).rem().subrange(1, old(self).rem().len() as int);
    fn get_u32(&mut self) -> (r: u32)
        requires old(self).rem().len() >= 4
        ensures r == de32(old(self).rem().subrange(0,4)), final(self).rem() == old(self).rem().subrange(4, old(self).rem().len() as int);
    fn get_u16(&mut self) -> (r: u16)
        requires old(self).rem().len() >= 2
        ensures r == de16(old(self).rem().subrange(0,2)), final(self).rem() == old(self).rem().subrange(2, old(self).rem().len() as int);
}
impl<'a> Buf for &'a [u8] {
    open spec fn rem(&self) -> Seq<u8> { self@ }
    #[verifier::external_body]
    fn get_u8(&mut self) -> (r: u8) { unimplemented!() }
    #[verifier::external_body]
    fn get_u32(&mut self) -> (r: u32) { unimplemented!() }
    #[verifier::external_body]
    fn get_u16(&mut self) -> (r: u16) { unimplemented!() }
}

impl std::ops::Index<std::ops::RangeTo<usize>> for BytesMut {
    type Output = [u8];
    #[verifier::external_body]
    fn index(&self, r: std::ops::RangeTo<usize>) -> (o: &[u8])
        ensures o@ == self@.subrange(0, r.end as int)
    { &self.v[..r.end] }
}
impl vstd::std_specs::core::IndexSpecImpl<std::ops::RangeTo<usize>> for BytesMut {
    open spec fn index_req(&self, index: &std::ops::RangeTo<usize>) -> bool { index.end <= self@.len() }
}
impl std::ops::Deref for Bytes {
    type Target = [u8];
    #[verifier::external_body]
    fn deref(&self) -> (r: &[u8]) ensures r@ == self@ { &self.v[..] }
}
impl std::ops::Deref for BytesMut {
    type Target = [u8];
    #[verifier::external_body]
    fn deref(&self) -> (r: &[u8]) ensures r@ == self@ { &self.v[..] }
}

// tokio_util::codec traits (signatures only; the impls are the code under verification)
pub trait Decoder {
    type Item;
    type Error;
    fn decode(&mut self, src: &mut BytesMut) -> std::result::Result<Option<Self::Item>, Self::Error>;
}
pub trait Encoder<Item> {
    type Error;
    fn encode(&mut self, item: Item, dst: &mut BytesMut) -> std::result::Result<(), Self::Error>;
}
