// ---- shim cert_env: what util/cert_reloader.rs::reload refers to (TRUSTED; files are an opaque, possibly failing environment) ----
pub use std::sync::Arc;
pub enum CEv { Loaded { cfg: int }, Info { info: int } }
pub struct PathBuf { pub _p: () }
pub struct ServerConfig { pub ghost id: int }
pub struct TlsAcceptor { pub ghost cfg: int }
impl TlsAcceptor { #[verifier::external_body] pub fn from(c: ServerConfig) -> (r: Self) ensures r.cfg == c.id { unimplemented!() } }
// pair validation (certificate matches key) happens inside: any failure (missing / truncated / garbled file, mismatch) => Err
#[verifier::external_body]
pub fn create_server_config_from_files(cert: &PathBuf, key: &PathBuf, fx: &mut Ghost<Seq<CEv>>) -> (r: Result<ServerConfig>)
    ensures r is Ok ==> final(fx)@ == old(fx)@.push(CEv::Loaded { cfg: r->Ok_0.id }), r is Err ==> final(fx)@ == old(fx)@
{ unimplemented!() }
pub struct CertificateInfo { pub ghost id: int, pub ghost expired: bool, pub days_until_expiry: i64 }
impl CertificateInfo {
    #[verifier::external_body]
    pub fn from_pem_file(p: &PathBuf, fx: &mut Ghost<Seq<CEv>>) -> (r: Result<CertificateInfo>)
        ensures r is Ok ==> final(fx)@ == old(fx)@.push(CEv::Info { info: r->Ok_0.id }), r is Err ==> final(fx)@ == old(fx)@
    { unimplemented!() }
    #[verifier::external_body] pub fn is_expired(&self) -> (r: bool) ensures r == self.expired { unimplemented!() }
    #[verifier::external_body] pub fn is_expiring_soon(&self, days: u64) -> (r: bool) { unimplemented!() }
}
impl Clone for CertificateInfo { #[verifier::external_body] fn clone(&self) -> (r: Self) ensures r == *self { unimplemented!() } }
pub struct ElapsedT;
pub struct Instant { pub t: u64 }
impl Instant { #[verifier::external_body] pub fn now() -> (r: Instant) { unimplemented!() } #[verifier::external_body] pub fn elapsed(&self) -> (r: ElapsedT) { unimplemented!() } }
pub struct CertReloaderConfig { pub cert_path: PathBuf, pub key_path: PathBuf, pub watch_enabled: bool, pub debounce_ms: u64, pub check_expiry: bool, pub expiry_warning_days: u64 }
pub struct CertReloader { pub config: CertReloaderConfig }
pub struct CertState {
    pub tls_acceptor: Arc<TlsAcceptor>,
    pub cert_info: Option<CertificateInfo>,
    pub reload_count: u64,
    pub last_reload: Option<Instant>,
    pub fx: Ghost<Seq<CEv>>,
}
