//! F-C14-a (repaired): the liveness monitor closed healthy sessions when the timeout was shorter than the probe interval.
//! The pair is now refused where it enters the program (SessionPoolConfig::validate, called by the client binary); for the
//! accepted pairs a peer that answers every probe keeps its session.
use anytls_rs::client::SessionPoolConfig;
use anytls_rs::padding::PaddingFactory;
use anytls_rs::session::Session;
use std::sync::Arc;
use std::time::Duration;

fn pf() -> Arc<PaddingFactory> { Arc::new(PaddingFactory::new(anytls_rs::padding::DEFAULT_PADDING_SCHEME.as_bytes()).unwrap()) }

async fn healthy_pair(interval_ms: u64, timeout_ms: u64) -> (Arc<Session>, Arc<Session>) {
    use anytls_rs::session::SessionHeartbeatConfig;
    let (a, b) = tokio::io::duplex(1 << 20);
    let (ar, aw) = tokio::io::split(a);
    let (br, bw) = tokio::io::split(b);
    let client = Arc::new(Session::new_client(ar, aw, pf(), Some(SessionHeartbeatConfig { interval: Duration::from_millis(interval_ms), timeout: Duration::from_millis(timeout_ms) })));
    let server = Arc::new(Session::new_server(br, bw, pf()));
    let s2 = server.clone();
    tokio::spawn(async move { let _ = s2.recv_loop().await; });
    let s3 = server.clone();
    tokio::spawn(async move { let _ = s3.process_stream_data().await; });
    client.clone().start_client().await.unwrap();
    client.disable_buffering();   // as create_proxy_stream does right after opening the first stream
    (client, server)
}

#[tokio::test]
async fn f_c14_a_pairs_that_would_close_healthy_sessions_are_refused_and_accepted_pairs_keep_them() {
    // the witness of the finding (interval 400 ms, timeout 100 ms) can no longer enter the program
    let bad = SessionPoolConfig { check_interval: Duration::from_millis(400), idle_timeout: Duration::from_millis(100), min_idle_sessions: 1 };
    assert!(bad.validate().is_err(), "a timeout shorter than the probe interval was accepted");
    // accepted pairs, including timeout == interval: a peer that answers every probe at once keeps its session
    for (i, t) in [(100u64, 400u64), (200, 200)] {
        let ok = SessionPoolConfig { check_interval: Duration::from_millis(i), idle_timeout: Duration::from_millis(t), min_idle_sessions: 1 };
        assert!(ok.validate().is_ok());
        let (c, s) = healthy_pair(i, t).await;
        tokio::time::sleep(Duration::from_millis(1300)).await;
        assert!(!c.is_closed() && !s.is_closed(), "a healthy session was closed by the liveness monitor (interval {i} ms, timeout {t} ms)");
    }
}

/// F-C14-b (repaired): with the timeout equal to the interval the last answer is about one interval old at the next tick, so a
/// tick that fired a little late closed a session whose peer had answered every request. The monitor now asks whether its most
/// recent request is still unanswered; that also keeps healthy sessions of library users whose timeout is shorter than the interval.
#[tokio::test]
async fn f_c14_b_a_late_tick_does_not_count_against_a_peer_that_answered_every_request() {
    for (i, t) in [(200u64, 200u64), (150, 150), (400, 100)] {
        let (c, s) = healthy_pair(i, t).await;
        tokio::time::sleep(Duration::from_millis(1300)).await;
        assert!(!c.is_closed() && !s.is_closed(), "a healthy session was closed by the liveness monitor (interval {i} ms, timeout {t} ms)");
    }
}

/// second half of the property on the repaired monitor: a peer that never answers is given up within timeout + one interval
/// (plus scheduling slack) of the last answer - here the session's creation, which is what the liveness instant starts from
#[tokio::test]
async fn f_c14_b_a_silent_peer_is_still_given_up_within_timeout_plus_one_interval() {
    use anytls_rs::session::SessionHeartbeatConfig;
    use tokio::io::AsyncReadExt;
    for (i, t) in [(100u64, 300u64), (200, 200)] {
        let (a, b) = tokio::io::duplex(1 << 20);
        let (ar, aw) = tokio::io::split(a);
        let (mut br, _bw) = tokio::io::split(b);
        tokio::spawn(async move { let mut sink = [0u8; 4096]; while let Ok(n) = br.read(&mut sink).await { if n == 0 { break; } } });
        let t0 = std::time::Instant::now();
        let client = Arc::new(Session::new_client(ar, aw, pf(), Some(SessionHeartbeatConfig { interval: Duration::from_millis(i), timeout: Duration::from_millis(t) })));
        client.clone().start_client().await.unwrap();
        client.disable_buffering();
        let deadline = Duration::from_millis(t + i + 150);
        while !client.is_closed() && t0.elapsed() < deadline + Duration::from_millis(500) { tokio::time::sleep(Duration::from_millis(5)).await; }
        let took = t0.elapsed();
        assert!(client.is_closed(), "a silent peer was never given up (interval {i} ms, timeout {t} ms)");
        assert!(took >= Duration::from_millis(t), "given up after {took:?}, before the timeout of {t} ms had passed");
        assert!(took <= deadline, "a silent peer was given up only after {took:?} (interval {i} ms, timeout {t} ms: bound {deadline:?})");
    }
}
