// ---- shim pool_env: what client/session_pool.rs refers to (TRUSTED) ----
pub use std::sync::Arc;
pub type Duration = u64;      // durations and instants as naturals (milliseconds): comparisons are integer comparisons
pub struct ElapsedD { pub d: u64 }
impl ElapsedD { #[verifier::external_body] pub fn as_secs_f64(&self) -> f64 { 0.0 } }
#[derive(Clone, Copy)]
pub struct Instant { pub t: u64 }
impl Instant {
    #[verifier::external_body] pub fn now() -> (r: Instant) { unimplemented!() }
    // saturating, as tokio's Instant::duration_since
    pub fn duration_since(&self, earlier: Instant) -> (r: u64) ensures r == (if self.t >= earlier.t { (self.t - earlier.t) as u64 } else { 0u64 }) { if self.t >= earlier.t { self.t - earlier.t } else { 0 } }
    #[verifier::external_body] pub fn elapsed(&self) -> (r: ElapsedD) { unimplemented!() }
}
pub enum PEffect { Close { id: int } }
// a session as the pool sees it: its closedness and its number of open streams are fixed during one pool call (atomic section)
pub struct Session { pub ghost id: int, pub ghost closed: bool, pub ghost open_streams: nat, pub seqno: u64 }
impl Session {
    #[verifier::external_body] pub fn is_closed(&self) -> (r: bool) ensures r == self.closed { unimplemented!() }
    pub fn seq(&self) -> (r: u64) ensures r == self.seqno { self.seqno }
    #[verifier::external_body] pub fn has_open_streams(&self) -> (r: bool) ensures r == (self.open_streams > 0) { unimplemented!() }
    #[verifier::external_body]
    pub fn close(&self, fx: &mut Ghost<Seq<PEffect>>) -> (r: Result<()>)
        ensures final(fx)@ == old(fx)@.push(PEffect::Close { id: self.id })
    { unimplemented!() }
}
// BTreeMap<u64, V> as a ghost map with ascending iteration
#[verifier::external_body]
#[verifier::reject_recursive_types(K)]
#[verifier::reject_recursive_types(V)]
pub struct BTreeMap<K, V> { _k: std::marker::PhantomData<K>, _v: std::marker::PhantomData<V> }
impl<V> BTreeMap<u64, V> {
    pub uninterp spec fn view(&self) -> Map<u64, V>;
    #[verifier::external_body]
    pub fn is_empty(&self) -> (r: bool) ensures r == (self@.dom().len() == 0) { unimplemented!() }
    #[verifier::external_body]
    pub fn len(&self) -> (r: usize) ensures r == self@.dom().len() { unimplemented!() }
    #[verifier::external_body]
    pub fn last_key_value(&self) -> (r: Option<(&u64, &V)>)
        ensures r is None <==> self@.dom().len() == 0,
            r is Some ==> self@.contains_key(*r->Some_0.0) && *r->Some_0.1 == self@[*r->Some_0.0] && (forall|k: u64| self@.contains_key(k) ==> k <= *r->Some_0.0)
    { unimplemented!() }
    #[verifier::external_body]
    pub fn remove(&mut self, k: &u64) -> (r: Option<V>)
        ensures r is Some <==> old(self)@.contains_key(*k), r is Some ==> r->Some_0 == old(self)@[*k], final(self)@ == old(self)@.remove(*k)
    { unimplemented!() }
    #[verifier::external_body]
    pub fn pop_last(&mut self) -> (r: Option<(u64, V)>)
        ensures r is None <==> old(self)@.dom().len() == 0, r is None ==> final(self)@ == old(self)@,
            r is Some ==> old(self)@.contains_key(r->Some_0.0) && r->Some_0.1 == old(self)@[r->Some_0.0] && final(self)@ == old(self)@.remove(r->Some_0.0)
                && (forall|k: u64| old(self)@.contains_key(k) ==> k <= r->Some_0.0)
    { unimplemented!() }
    #[verifier::external_body]
    pub fn pop_first(&mut self) -> (r: Option<(u64, V)>)
        ensures r is None <==> old(self)@.dom().len() == 0, r is None ==> final(self)@ == old(self)@,
            r is Some ==> old(self)@.contains_key(r->Some_0.0) && r->Some_0.1 == old(self)@[r->Some_0.0] && final(self)@ == old(self)@.remove(r->Some_0.0)
                && (forall|k: u64| old(self)@.contains_key(k) ==> k >= r->Some_0.0)
    { unimplemented!() }
    #[verifier::external_body]
    pub fn contains_key(&self, k: &u64) -> (r: bool) ensures r == self@.contains_key(*k) { unimplemented!() }
    #[verifier::external_body]
    pub fn get(&self, k: &u64) -> (r: Option<&V>) ensures r is Some <==> self@.contains_key(*k), r is Some ==> *r->Some_0 == self@[*k] { unimplemented!() }
    #[verifier::external_body]
    pub fn insert(&mut self, k: u64, v: V) -> (r: Option<V>)
        ensures final(self)@ == old(self)@.insert(k, v)
    { unimplemented!() }
    // ascending key order, every entry exactly once
    #[verifier::external_body]
    pub fn iter(&self) -> (r: Vec<(&u64, &V)>)
        ensures r@.len() == self@.dom().len(),
            forall|i: int| 0 <= i < r@.len() ==> self@.contains_key(*(#[trigger] r@[i]).0) && *r@[i].1 == self@[*r@[i].0],
            forall|i: int, j: int| 0 <= i < j < r@.len() ==> *(#[trigger] r@[i]).0 < *(#[trigger] r@[j]).0,
            forall|k: u64| self@.contains_key(k) ==> exists|i: int| 0 <= i < r@.len() && *(#[trigger] r@[i]).0 == k,
    { unimplemented!() }
}
pub struct SessionPoolConfig { pub check_interval: Duration, pub idle_timeout: Duration, pub min_idle_sessions: usize }
// dials = number of TLS connections this client has dialled so far (ghost; only Client::create_new_session advances it)
pub struct PoolState { pub idle_sessions: BTreeMap<u64, PooledSession>, pub fx: Ghost<Seq<PEffect>>, pub dials: Ghost<nat> }
// the client as its own session-acquisition functions see it
pub struct Client { pub session_pool: Arc<SessionPool>, pub pool_config: SessionPoolConfig }
impl Client {
    // dial + TLS + authentication + start of the session (client.rs create_new_session; its construction block is under contract in
    // group `clientsess`): one more connection; the new, open session sits in the idle map under its own sequence number
    #[verifier::external_body]
    pub fn create_new_session(&self, st: &mut PoolState) -> (r: Result<Arc<Session>>)
        ensures final(st).dials@ == old(st).dials@ + 1, final(st).fx@ == old(st).fx@,
            r is Ok ==> !r->Ok_0.closed && final(st).idle_sessions@.dom() == old(st).idle_sessions@.dom().insert(r->Ok_0.seqno) && final(st).idle_sessions@[r->Ok_0.seqno].session == r->Ok_0,
            r is Err ==> final(st).idle_sessions@ == old(st).idle_sessions@
    { unimplemented!() }
}
pub struct SessionPool { pub config: SessionPoolConfig }
pub open spec fn closes(fx: Seq<PEffect>) -> Set<int> decreases fx.len()
{ if fx.len() == 0 { Set::empty() } else { let r = closes(fx.drop_last()); match fx.last() { PEffect::Close { id } => r.insert(id) } } }
pub broadcast proof fn lemma_closes_push(fx: Seq<PEffect>, e: PEffect)
    ensures #[trigger] closes(fx.push(e)) == (match e { PEffect::Close { id } => closes(fx).insert(id) })
{ assert(fx.push(e).drop_last() =~= fx); assert(fx.push(e).last() == e); }

