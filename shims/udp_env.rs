// ---- shim udp_env: std::net::SocketAddr as the UDP code uses it, module paths (TRUSTED) ----
pub mod session { pub use super::StreamReader; }
pub struct SocketAddrV4 { pub ip: Ipv4Addr, pub port: u16 }
pub struct SocketAddrV6 { pub ip: Ipv6Addr, pub port: u16 }
impl SocketAddrV4 { pub fn ip(&self) -> (r: &Ipv4Addr) ensures *r == self.ip { &self.ip } pub fn port(&self) -> (r: u16) ensures r == self.port { self.port } }
impl SocketAddrV6 { pub fn ip(&self) -> (r: &Ipv6Addr) ensures *r == self.ip { &self.ip } pub fn port(&self) -> (r: u16) ensures r == self.port { self.port } }
pub enum SocketAddr { V4(SocketAddrV4), V6(SocketAddrV6) }
impl From<(Ipv4Addr, u16)> for SocketAddr {
    fn from(t: (Ipv4Addr, u16)) -> (r: SocketAddr) ensures r == SocketAddr::V4(SocketAddrV4 { ip: t.0, port: t.1 }) { SocketAddr::V4(SocketAddrV4 { ip: t.0, port: t.1 }) }
}
impl vstd::std_specs::convert::FromSpecImpl<(Ipv4Addr, u16)> for SocketAddr {
    open spec fn obeys_from_spec() -> bool { true }
    open spec fn from_spec(t: (Ipv4Addr, u16)) -> SocketAddr { SocketAddr::V4(SocketAddrV4 { ip: t.0, port: t.1 }) }
}
impl From<(Ipv6Addr, u16)> for SocketAddr {
    fn from(t: (Ipv6Addr, u16)) -> (r: SocketAddr) ensures r == SocketAddr::V6(SocketAddrV6 { ip: t.0, port: t.1 }) { SocketAddr::V6(SocketAddrV6 { ip: t.0, port: t.1 }) }
}
impl vstd::std_specs::convert::FromSpecImpl<(Ipv6Addr, u16)> for SocketAddr {
    open spec fn obeys_from_spec() -> bool { true }
    open spec fn from_spec(t: (Ipv6Addr, u16)) -> SocketAddr { SocketAddr::V6(SocketAddrV6 { ip: t.0, port: t.1 }) }
}
pub mod std_net_paths { }
// the resolver as the UDP request parser sees it (opaque; unit `dns_cache` has its contract)
#[verifier::external_body]
pub fn resolve_host_with_cache(host: &String, port: u16) -> (r: Result<SocketAddr>)
    ensures r is Ok ==> (match r->Ok_0 { SocketAddr::V4(a) => a.port == port, SocketAddr::V6(a) => a.port == port })
{ unimplemented!() }
