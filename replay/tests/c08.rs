//! F-C08-a (repaired): no code path emitted a FIN frame, so the end of a direction never reached the other side and both
//! sessions kept the stream's table entries for ever.
#![allow(dead_code)]
mod common;
use anytls_rs::padding::PaddingFactory;
use anytls_rs::session::Session;
use common::{TestConfig, create_test_client, create_test_server};
use std::net::TcpListener;
use std::sync::Arc;
use tokio::io::{AsyncReadExt, AsyncWriteExt};
use tokio::net::TcpStream;
use tokio::time::{Duration, sleep, timeout};

fn pf() -> Arc<PaddingFactory> { Arc::new(PaddingFactory::new(anytls_rs::padding::DEFAULT_PADDING_SCHEME.as_bytes()).unwrap()) }
fn available_port() -> u16 { TcpListener::bind("127.0.0.1:0").unwrap().local_addr().unwrap().port() }

/// stream.poll_shutdown.shutdown_tells_the_peer_end_of_stream: the FIN is on the wire, after the data written before it
#[tokio::test]
async fn f_c08_a_shutdown_emits_fin_after_the_data() {
    use tokio_util::codec::Decoder;
    let (a, b) = tokio::io::duplex(1 << 20);
    let (ar, aw) = tokio::io::split(a);
    let (mut br, _bw) = tokio::io::split(b);
    let s = Arc::new(Session::new_client(ar, aw, pf(), None));
    s.clone().start_client().await.unwrap();
    let (stream, _rx) = s.open_stream().await.unwrap();
    s.disable_buffering();
    let id = stream.id();
    stream.send_data(bytes::Bytes::from(vec![7u8; 100_000])).unwrap();
    stream.send_data(bytes::Bytes::from_static(b"bye")).unwrap();
    stream.send_fin();
    stream.send_fin();                                     // only the first announcement counts
    assert!(stream.send_data(bytes::Bytes::from_static(b"late")).is_err(), "data was accepted after the end of data had been announced");
    sleep(Duration::from_millis(200)).await;
    let mut buf = bytes::BytesMut::new();
    let mut tmp = vec![0u8; 65536];
    loop {
        match timeout(Duration::from_millis(200), br.read(&mut tmp)).await { Ok(Ok(n)) if n > 0 => buf.extend_from_slice(&tmp[..n]), _ => break }
    }
    let mut c = anytls_rs::protocol::FrameCodec;
    let (mut data, mut fins, mut after_fin) = (Vec::new(), 0, 0usize);
    while let Some(f) = c.decode(&mut buf).unwrap() {
        if f.stream_id != id { continue; }
        match f.cmd {
            anytls_rs::protocol::Command::Fin => fins += 1,
            anytls_rs::protocol::Command::Push => { if fins > 0 { after_fin += f.data.len(); } data.extend_from_slice(&f.data); }
            _ => {}
        }
    }
    assert_eq!(fins, 1, "the stream was shut down but {fins} FIN frames for stream {id} reached the wire");
    assert_eq!(data.len(), 100_003, "data written before the shutdown is missing on the wire");
    assert_eq!(&data[100_000..], b"bye");
    assert_eq!(after_fin, 0, "data followed the FIN");
}

/// the AsyncWrite face of a stream: shutdown queues the end-of-data marker behind the data, once; empty writes queue nothing
#[tokio::test]
async fn f_c08_a_async_write_shutdown_queues_the_end_marker_behind_the_data() {
    let (tx, mut rx) = tokio::sync::mpsc::unbounded_channel();
    let (_reader_tx, reader_rx) = tokio::sync::mpsc::unbounded_channel();
    let reader = anytls_rs::session::StreamReader::new(9, reader_rx);
    let (mut st, _synack) = anytls_rs::session::Stream::new(9, reader, tx);
    st.write_all(b"hello").await.unwrap();
    let _ = st.write(b"").await.unwrap();                  // an empty write must not look like the end marker
    st.write_all(b"bye").await.unwrap();
    st.shutdown().await.unwrap();
    st.shutdown().await.unwrap();
    assert!(st.write_all(b"late").await.is_err(), "a write after shutdown was accepted");
    drop(st);
    let mut items = Vec::new();
    while let Some((id, d)) = rx.recv().await { items.push((id, d.to_vec())); }
    assert_eq!(items, vec![(9, b"hello".to_vec()), (9, b"bye".to_vec()), (9, Vec::new())], "outbound queue of the stream: data in order, then exactly one end marker");
}

async fn socks_stack() -> anyhow::Result<(String, u16, Arc<anytls_rs::client::Client>, tokio::sync::mpsc::UnboundedReceiver<usize>)> {
    let config = TestConfig { server_addr: format!("127.0.0.1:{}", available_port()), client_listen: format!("127.0.0.1:{}", available_port()), password: "replay_password".to_string() };
    let server = create_test_server(&config).await?;
    let server_addr = config.server_addr.clone();
    tokio::spawn(async move { let _ = server.listen(&server_addr).await; });
    sleep(Duration::from_millis(300)).await;
    let client = create_test_client(&config).await?;
    let socks_addr = config.client_listen.clone();
    let (c2, a2) = (Arc::clone(&client), socks_addr.clone());
    tokio::spawn(async move { let _ = anytls_rs::client::start_socks5_server(&a2, c2).await; });
    sleep(Duration::from_millis(400)).await;
    // a target that reads until END OF STREAM, reports how much it got, answers with 50 000 bytes and closes
    let up = tokio::net::TcpListener::bind("127.0.0.1:0").await?;
    let up_port = up.local_addr()?.port();
    let (tx, rx) = tokio::sync::mpsc::unbounded_channel();
    tokio::spawn(async move { loop { if let Ok((mut s, _)) = up.accept().await { let tx = tx.clone(); tokio::spawn(async move {
        let mut b = vec![0u8; 16384]; let mut total = 0usize;
        loop { match s.read(&mut b).await { Ok(0) => break, Ok(n) => total += n, Err(_) => return } }
        let _ = tx.send(total);
        let _ = s.write_all(&vec![9u8; 50_000]).await;
        let _ = s.shutdown().await;
    }); } } });
    Ok((socks_addr, up_port, client, rx))
}

/// the three forwarders: the application half-closes after 200 000 bytes -> the target sees end of stream after all of them;
/// the target answers and closes -> the application sees end of stream after the whole answer; then the client session
/// keeps no entry for the stream
#[tokio::test]
async fn f_c08_a_end_of_data_travels_both_ways_after_the_data_and_the_stream_state_is_released() -> anyhow::Result<()> {
    let (socks_addr, up_port, client, mut seen) = socks_stack().await?;
    let mut s = timeout(Duration::from_secs(5), TcpStream::connect(&socks_addr)).await??;
    s.write_all(&[5, 1, 0]).await?;
    let mut r = [0u8; 2]; s.read_exact(&mut r).await?;
    let mut req = vec![5, 1, 0, 1, 127, 0, 0, 1]; req.extend_from_slice(&up_port.to_be_bytes());
    s.write_all(&req).await?;
    let mut rep = [0u8; 10]; timeout(Duration::from_secs(5), s.read_exact(&mut rep)).await??;
    assert_eq!(rep[1], 0, "connect refused");
    s.write_all(&vec![3u8; 200_000]).await?;
    s.shutdown().await?;                                   // half-close: the application has finished sending
    let got = timeout(Duration::from_secs(5), seen.recv()).await.map_err(|_| anyhow::anyhow!("the target never saw end of stream after the application half-closed"))?;
    assert_eq!(got, Some(200_000), "the target saw end of stream before all the data");
    let mut back = Vec::new();
    let n = timeout(Duration::from_secs(5), s.read_to_end(&mut back)).await.map_err(|_| anyhow::anyhow!("the application never saw end of stream after the target closed ({} bytes so far)", back.len()))??;
    assert_eq!(n, 50_000, "the application saw end of stream before the whole answer");
    // both directions have ended: the client session (still in the idle map) keeps nothing for the stream
    sleep(Duration::from_millis(300)).await;
    let session = client.create_stream().await?;
    assert!(!session.has_open_streams().await, "both directions ended but the client session still has a table entry for the stream");
    Ok(())
}

/// same through the HTTP CONNECT front-end (echo target: it closes when it sees end of stream)
#[tokio::test]
async fn f_c08_a_http_tunnel_passes_end_of_data_both_ways() -> anyhow::Result<()> {
    let config = TestConfig { server_addr: format!("127.0.0.1:{}", available_port()), client_listen: format!("127.0.0.1:{}", available_port()), password: "replay_password".to_string() };
    let server = create_test_server(&config).await?;
    let server_addr = config.server_addr.clone();
    tokio::spawn(async move { let _ = server.listen(&server_addr).await; });
    sleep(Duration::from_millis(300)).await;
    let client = create_test_client(&config).await?;
    let (c2, a2) = (Arc::clone(&client), config.client_listen.clone());
    tokio::spawn(async move { let _ = anytls_rs::client::start_http_proxy_server(&a2, c2).await; });
    sleep(Duration::from_millis(400)).await;
    let up = tokio::net::TcpListener::bind("127.0.0.1:0").await?;
    let up_port = up.local_addr()?.port();
    tokio::spawn(async move { loop { if let Ok((mut s, _)) = up.accept().await { tokio::spawn(async move { let mut b = [0u8; 4096]; loop { match s.read(&mut b).await { Ok(0) | Err(_) => break, Ok(n) => { if s.write_all(&b[..n]).await.is_err() { break; } } } } let _ = s.shutdown().await; }); } } });
    let mut s = timeout(Duration::from_secs(5), TcpStream::connect(&config.client_listen)).await??;
    s.write_all(format!("CONNECT 127.0.0.1:{up_port} HTTP/1.1\r\nHost: 127.0.0.1:{up_port}\r\n\r\n").as_bytes()).await?;
    let mut head = Vec::new(); let mut one = [0u8; 1];
    while !head.ends_with(b"\r\n\r\n") { timeout(Duration::from_secs(5), s.read_exact(&mut one)).await??; head.push(one[0]); }
    assert!(head.starts_with(b"HTTP/1.1 200"));
    let (mut rd, mut wr) = s.into_split();
    let reader = tokio::spawn(async move { let mut back = Vec::new(); let r = timeout(Duration::from_secs(8), rd.read_to_end(&mut back)).await; (r.is_ok(), back.len()) });
    wr.write_all(&vec![4u8; 120_000]).await?;
    wr.shutdown().await?;
    let (eof, n) = reader.await?;
    assert!(eof, "the application never saw end of stream after the echo target closed ({n} bytes echoed so far)");
    assert_eq!(n, 120_000, "end of stream before the whole echo");
    sleep(Duration::from_millis(300)).await;
    let session = client.create_stream().await?;
    assert!(!session.has_open_streams().await, "both directions ended but the client session still has a table entry for the stream");
    Ok(())
}

/// F-C08-b (repaired): a stream the server REFUSED (nothing listens on the port) was never finished by either side: both sessions
/// kept its table entries for ever (so the pool's reaper never saw the client session as idle again)
#[tokio::test]
async fn f_c08_b_a_refused_stream_leaves_no_state_behind() -> anyhow::Result<()> {
    let (_socks_addr, _up_port, client, _seen) = socks_stack().await?;
    let dead_port = available_port();
    let r = timeout(Duration::from_secs(10), client.create_proxy_stream(("127.0.0.1".to_string(), dead_port))).await?;
    assert!(r.is_err(), "a connection to a closed port was reported as established");
    sleep(Duration::from_millis(400)).await;
    let session = client.create_stream().await?;            // the session went back to the pool (F-C13-a)
    assert!(!session.is_closed());
    assert!(!session.has_open_streams().await, "the refused stream is over on both sides but the client session still has a table entry for it");
    Ok(())
}
