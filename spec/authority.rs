// ---- spec authority: what `host[:port]` text means (RFC 3986 authority without userinfo), as mathematics ----
// a registered name or IPv4 literal as it appears in an authority: no colon, no brackets, and it neither starts nor
// ends with white space (first and last byte are ASCII non-space)
pub open spec fn plain_host(h: Seq<u8>) -> bool {
    h.len() > 0 && !occurs(h, 0x3A) && !occurs(h, 0x5B) && !occurs(h, 0x5D)
    && h[0] < 0x80 && !ascii_ws(h[0]) && h[h.len() - 1] < 0x80 && !ascii_ws(h[h.len() - 1])
}
// the inside of a bracketed IPv6 literal: non-empty, no brackets
pub open spec fn v6_inner(h: Seq<u8>) -> bool { h.len() > 0 && !occurs(h, 0x5B) && !occurs(h, 0x5D) }
pub open spec fn port_text(p: Seq<u8>) -> bool { all_digits(p) && dec_value(p) <= 65535 }
// the meaning of an authority text `v` with default port `d`: the five well-formed shapes.  (host, port) is the
// destination it names.  Each shape is one conjunct; a text of no shape is unconstrained.
#[verifier::opaque]
pub open spec fn names_destination(v: Seq<u8>, d: u16, host: Seq<u8>, port: u16) -> bool {
    // name:port  /  1.2.3.4:port
    &&& (forall|k: int| #![trigger v[k]] 0 <= k < v.len() && v[k] == 0x3A && plain_host(v.subrange(0, k)) && port_text(v.subrange(k + 1, v.len() as int))
            ==> host == v.subrange(0, k) && port == dec_value(v.subrange(k + 1, v.len() as int)))
    // name  /  1.2.3.4
    &&& (plain_host(v) ==> host == v && port == d)
    // [v6]:port
    &&& (forall|k: int| #![trigger v[k]] 2 <= k < v.len() && v[0] == 0x5B && v[k - 1] == 0x5D && v[k] == 0x3A && v6_inner(v.subrange(1, k - 1)) && port_text(v.subrange(k + 1, v.len() as int))
            ==> host == v.subrange(1, k - 1) && port == dec_value(v.subrange(k + 1, v.len() as int)))
    // [v6]
    &&& (v.len() >= 2 && v[0] == 0x5B && v[v.len() - 1] == 0x5D && v6_inner(v.subrange(1, v.len() - 1)) ==> host == v.subrange(1, v.len() - 1) && port == d)
    // bare v6 (two or more colons, no brackets): taken verbatim with the default port
    &&& ((exists|i: int, j: int| 0 <= i < j < v.len() && v[i] == 0x3A && v[j] == 0x3A) && !occurs(v, 0x5B) && !occurs(v, 0x5D) ==> host == v && port == d)
}
// trimming facts derived from the trusted contracts
pub proof fn lemma_trim_noop(s: Seq<u8>)
    requires trim_facts(s), s.len() == 0 || (s[0] < 0x80 && !ascii_ws(s[0]) && s[s.len() - 1] < 0x80 && !ascii_ws(s[s.len() - 1]))
    ensures trimmed(s) == s
{ reveal(trim_facts); assert(trimmed(s) =~= s); }
pub proof fn lemma_tm_noop(s: Seq<u8>, c: u8)
    requires tm_facts(s, c), s.len() == 0 || (s[0] != c && s[s.len() - 1] != c)
    ensures trimmed_c(s, c) == s
{
    reveal(tm_facts);
    let lo = tm_lo(s, c); let hi = tm_hi(s, c);
    if s.len() > 0 { if lo > 0 { assert(s[0] == c); } if hi < s.len() { assert(s[s.len() - 1] == c); } }
    assert(trimmed_c(s, c) =~= s);
}
// one leading c, none after / one trailing c, none before
pub proof fn lemma_tm_strip_front(s: Seq<u8>, c: u8)
    requires tm_facts(s, c), s.len() >= 2, s[0] == c, s[1] != c, s[s.len() - 1] != c
    ensures trimmed_c(s, c) == s.subrange(1, s.len() as int)
{
    reveal(tm_facts);
    let lo = tm_lo(s, c); let hi = tm_hi(s, c);
    if hi < s.len() { assert(s[s.len() - 1] == c); }
    if lo > 1 { assert(s[1] == c); }
    if lo == 0 { assert(lo < hi); }
    assert(trimmed_c(s, c) =~= s.subrange(1, s.len() as int));
}
pub proof fn lemma_tm_strip_back(s: Seq<u8>, c: u8)
    requires tm_facts(s, c), s.len() >= 2, s[s.len() - 1] == c, s[s.len() - 2] != c, s[0] != c
    ensures trimmed_c(s, c) == s.subrange(0, s.len() - 1)
{
    reveal(tm_facts);
    let lo = tm_lo(s, c); let hi = tm_hi(s, c);
    if lo > 0 { assert(s[0] == c); }
    if hi < s.len() - 1 { assert(s[s.len() - 2] == c); }
    if hi == s.len() { assert(lo < hi); }
    assert(trimmed_c(s, c) =~= s.subrange(0, s.len() - 1));
}
// ---- proofs about split_host_port's three exits (pure mathematics over the trusted byte-level contracts) ----
pub open spec fn last_colon(v: Seq<u8>, idx: int) -> bool { 0 <= idx < v.len() && v[idx] == 0x3A && forall|j: int| idx < j < v.len() ==> v[j] != 0x3A }
// trim().trim_matches('[').trim_matches(']')
pub open spec fn unwrap(v: Seq<u8>) -> Seq<u8> { trimmed_c(trimmed_c(trimmed(v), 0x5B), 0x5D) }
pub open spec fn unwrap_facts(v: Seq<u8>) -> bool { trim_facts(v) && tm_facts(trimmed(v), 0x5B) && tm_facts(trimmed_c(trimmed(v), 0x5B), 0x5D) }
pub open spec fn parsed_as(t: Seq<u8>, port: u16) -> bool {
    (all_digits(t) && dec_value(t) == port) || (t.len() > 1 && t[0] == 0x2B && all_digits(t.subrange(1, t.len() as int)) && dec_value(t.subrange(1, t.len() as int)) == port)
}
pub proof fn lemma_not_occurs(s: Seq<u8>, c: u8, j: int)
    requires !occurs(s, c), 0 <= j < s.len() ensures s[j] != c
{ }
pub proof fn lemma_colon_then_digits(v: Seq<u8>, k: int, idx: int)
    requires 0 <= k < v.len(), v[k] == 0x3A, all_digits(v.subrange(k + 1, v.len() as int)), last_colon(v, idx)
    ensures idx == k
{
    if idx > k { let t = v.subrange(k + 1, v.len() as int); assert(t[idx - k - 1] == v[idx]); assert(is_digit(t[idx - k - 1])); }
}
pub proof fn lemma_unwrap_plain(h: Seq<u8>)
    requires plain_host(h), unwrap_facts(h) ensures unwrap(h) == h
{
    lemma_trim_noop(h);
    lemma_not_occurs(h, 0x5B, 0); lemma_not_occurs(h, 0x5B, h.len() - 1);
    lemma_tm_noop(h, 0x5B);
    lemma_not_occurs(h, 0x5D, 0); lemma_not_occurs(h, 0x5D, h.len() - 1);
    lemma_tm_noop(h, 0x5D);
}
pub proof fn lemma_unwrap_bracketed(h: Seq<u8>)
    requires h.len() >= 2, h[0] == 0x5B, h[h.len() - 1] == 0x5D, v6_inner(h.subrange(1, h.len() - 1)), unwrap_facts(h)
    ensures unwrap(h) == h.subrange(1, h.len() - 1)
{
    let inner = h.subrange(1, h.len() - 1);
    lemma_trim_noop(h);
    lemma_not_occurs(inner, 0x5B, 0); lemma_not_occurs(inner, 0x5D, 0);
    lemma_not_occurs(inner, 0x5B, inner.len() - 1); lemma_not_occurs(inner, 0x5D, inner.len() - 1);
    assert(inner[0] == h[1]); assert(inner[inner.len() - 1] == h[h.len() - 2]);
    lemma_tm_strip_front(h, 0x5B);
    let h2 = h.subrange(1, h.len() as int);
    assert(h2[0] == h[1]); assert(h2[h2.len() - 1] == h[h.len() - 1]); assert(h2[h2.len() - 2] == h[h.len() - 2]);
    lemma_tm_strip_back(h2, 0x5D);
    assert(h2.subrange(0, h2.len() - 1) =~= inner);
}
// exit 1: `value` returned verbatim with the default port
pub proof fn lemma_shp_bare(v: Seq<u8>, d: u16, idx: int)
    requires last_colon(v, idx), occurs(v.subrange(0, idx), 0x3A), !occurs(v, 0x5D)
    ensures names_destination(v, d, v, d)
{
    reveal(names_destination);
    assert forall|k: int| #![trigger v[k]] 0 <= k < v.len() && v[k] == 0x3A && plain_host(v.subrange(0, k)) && port_text(v.subrange(k + 1, v.len() as int))
        implies v == v.subrange(0, k) && d == dec_value(v.subrange(k + 1, v.len() as int)) by { lemma_colon_then_digits(v, k, idx); }
    if plain_host(v) { lemma_not_occurs(v, 0x3A, idx); }
    assert forall|k: int| #![trigger v[k]] 2 <= k < v.len() && v[0] == 0x5B && v[k - 1] == 0x5D && v[k] == 0x3A && v6_inner(v.subrange(1, k - 1)) && port_text(v.subrange(k + 1, v.len() as int))
        implies v == v.subrange(1, k - 1) && d == dec_value(v.subrange(k + 1, v.len() as int)) by { lemma_not_occurs(v, 0x5D, k - 1); }
    if v.len() >= 2 && v[v.len() - 1] == 0x5D { lemma_not_occurs(v, 0x5D, v.len() - 1); }
}
// exit 2: a port was parsed after the last colon
pub proof fn lemma_shp_port(v: Seq<u8>, d: u16, idx: int, host: Seq<u8>, port: u16)
    requires last_colon(v, idx), !(occurs(v.subrange(0, idx), 0x3A) && !occurs(v, 0x5D)),
        parsed_as(v.subrange(idx + 1, v.len() as int), port),
        port_text(v.subrange(idx + 1, v.len() as int)) ==> port == dec_value(v.subrange(idx + 1, v.len() as int)),
        unwrap_facts(v.subrange(0, idx)), host == unwrap(v.subrange(0, idx)),
    ensures names_destination(v, d, host, port)
{
    reveal(names_destination);
    let hp = v.subrange(0, idx); let tail = v.subrange(idx + 1, v.len() as int);
    assert forall|k: int| #![trigger v[k]] 0 <= k < v.len() && v[k] == 0x3A && plain_host(v.subrange(0, k)) && port_text(v.subrange(k + 1, v.len() as int))
        implies host == v.subrange(0, k) && port == dec_value(v.subrange(k + 1, v.len() as int)) by { lemma_colon_then_digits(v, k, idx); lemma_unwrap_plain(hp); }
    if plain_host(v) { lemma_not_occurs(v, 0x3A, idx); }
    assert forall|k: int| #![trigger v[k]] 2 <= k < v.len() && v[0] == 0x5B && v[k - 1] == 0x5D && v[k] == 0x3A && v6_inner(v.subrange(1, k - 1)) && port_text(v.subrange(k + 1, v.len() as int))
        implies host == v.subrange(1, k - 1) && port == dec_value(v.subrange(k + 1, v.len() as int)) by {
        lemma_colon_then_digits(v, k, idx);
        assert(hp[0] == v[0]); assert(hp[hp.len() - 1] == v[k - 1]);
        assert(hp.subrange(1, hp.len() - 1) =~= v.subrange(1, k - 1));
        lemma_unwrap_bracketed(hp);
    }
    // [v6] without port: the text after the last colon would end in ']' , which no port text does
    if v.len() >= 2 && v[v.len() - 1] == 0x5D {
        assert(tail.len() > 0);
        assert(tail[tail.len() - 1] == v[v.len() - 1]);
        if all_digits(tail) { assert(is_digit(tail[tail.len() - 1])); }
        else { let t2 = tail.subrange(1, tail.len() as int); assert(t2[t2.len() - 1] == tail[tail.len() - 1]); assert(is_digit(t2[t2.len() - 1])); }
    }
    // bare v6: two colons and no brackets would have taken exit 1
    if (exists|i: int, j: int| 0 <= i < j < v.len() && v[i] == 0x3A && v[j] == 0x3A) && !occurs(v, 0x5B) && !occurs(v, 0x5D) {
        let (i, j) = choose|i: int, j: int| 0 <= i < j < v.len() && v[i] == 0x3A && v[j] == 0x3A;
        assert(j <= idx);
        assert(hp[i] == v[i]);
        assert(occurs(hp, 0x3A));
    }
}
// exit 3: no colon, or the text after the last colon is not a port: everything is the host, default port
pub proof fn lemma_shp_default(v: Seq<u8>, d: u16, idx: int, host: Seq<u8>)
    requires (idx == -1 && !occurs(v, 0x3A)) || (last_colon(v, idx) && !(occurs(v.subrange(0, idx), 0x3A) && !occurs(v, 0x5D)) && !port_text(v.subrange(idx + 1, v.len() as int))),
        unwrap_facts(v), host == unwrap(v),
    ensures names_destination(v, d, host, d)
{
    reveal(names_destination);
    assert forall|k: int| #![trigger v[k]] 0 <= k < v.len() && v[k] == 0x3A && plain_host(v.subrange(0, k)) && port_text(v.subrange(k + 1, v.len() as int))
        implies host == v.subrange(0, k) && d == dec_value(v.subrange(k + 1, v.len() as int)) by {
        if idx == -1 { lemma_not_occurs(v, 0x3A, k); } else { lemma_colon_then_digits(v, k, idx); }
    }
    if plain_host(v) { lemma_unwrap_plain(v); }
    assert forall|k: int| #![trigger v[k]] 2 <= k < v.len() && v[0] == 0x5B && v[k - 1] == 0x5D && v[k] == 0x3A && v6_inner(v.subrange(1, k - 1)) && port_text(v.subrange(k + 1, v.len() as int))
        implies host == v.subrange(1, k - 1) && d == dec_value(v.subrange(k + 1, v.len() as int)) by {
        if idx == -1 { lemma_not_occurs(v, 0x3A, k); } else { lemma_colon_then_digits(v, k, idx); }
    }
    if v.len() >= 2 && v[0] == 0x5B && v[v.len() - 1] == 0x5D && v6_inner(v.subrange(1, v.len() - 1)) { lemma_unwrap_bracketed(v); }
    if (exists|i: int, j: int| 0 <= i < j < v.len() && v[i] == 0x3A && v[j] == 0x3A) && !occurs(v, 0x5B) && !occurs(v, 0x5D) {
        let (i, j) = choose|i: int, j: int| 0 <= i < j < v.len() && v[i] == 0x3A && v[j] == 0x3A;
        if idx == -1 { lemma_not_occurs(v, 0x3A, i); }
        else { assert(j <= idx); let hp = v.subrange(0, idx); assert(hp[i] == v[i]); assert(occurs(hp, 0x3A)); }
    }
}
// ---- request-target forms (RFC 7230 5.3) ----
pub open spec fn lit_connect() -> Seq<u8> { seq![67u8, 79u8, 78u8, 78u8, 69u8, 67u8, 84u8] }                     // "CONNECT"
pub open spec fn lit_host_uc() -> Seq<u8> { seq![72u8, 111u8, 115u8, 116u8, 58u8] }                                // "Host:"
pub open spec fn lit_host_lc() -> Seq<u8> { seq![104u8, 111u8, 115u8, 116u8, 58u8] }                               // "host:"
pub open spec fn lit_http() -> Seq<u8> { seq![104u8, 116u8, 116u8, 112u8, 58u8, 47u8, 47u8] }                      // "http://"
pub open spec fn lit_https() -> Seq<u8> { seq![104u8, 116u8, 116u8, 112u8, 115u8, 58u8, 47u8, 47u8] }              // "https://"
pub open spec fn is_connect(method: Seq<u8>) -> bool { lower(method) == lower(lit_connect()) }
// a header line whose field name is spelled exactly `Host` or `host`
pub open spec fn is_host_exact(h: Seq<u8>) -> bool { occurs_at(h, lit_host_uc(), 0) || occurs_at(h, lit_host_lc(), 0) }
// ... in any capitalisation (field names are case-insensitive)
pub open spec fn is_host_ci(h: Seq<u8>) -> bool { occurs_at(lower(h), lit_host_lc(), 0) }
pub open spec fn host_value(h: Seq<u8>) -> Seq<u8> { trimmed(h.subrange(5, h.len() as int)) }
pub open spec fn norm_path(t: Seq<u8>) -> Seq<u8> { if t.len() > 0 && (t[0] == 0x2F || t[0] == 0x2A) { t } else { seq![0x2Fu8] + t } }
// first position of byte c in s, -1 when there is none
pub open spec fn first_at(s: Seq<u8>, c: u8, p: int) -> bool { 0 <= p < s.len() && s[p] == c && forall|j: int| 0 <= j < p ==> s[j] != c }
pub open spec fn first_index(s: Seq<u8>, c: u8) -> int { if exists|p: int| first_at(s, c, p) { choose|p: int| first_at(s, c, p) } else { -1 } }
pub proof fn lemma_first_index(s: Seq<u8>, c: u8, p: int)
    requires first_at(s, c, p) ensures first_index(s, c) == p
{ let q = choose|q: int| first_at(s, c, q); if q < p { } else if p < q { } }
pub proof fn lemma_first_index_none(s: Seq<u8>, c: u8)
    requires forall|j: int| 0 <= j < s.len() ==> s[j] != c ensures first_index(s, c) == -1
{ }
// absolute-form target `scheme://AUTH[/PATH]` with the scheme prefix of length n: AUTH is the text up to the first '/',
// the path is the rest (or "/"); they determine the result
pub open spec fn absolute_form_result(target: Seq<u8>, n: int, dflt: u16, ok: bool, host: Seq<u8>, port: u16, path: Seq<u8>, connect: bool) -> bool {
    let rest = target.subrange(n, target.len() as int);
    let p = first_index(rest, 0x2F);
    &&& (p > 0 ==> ok && names_destination(rest.subrange(0, p), dflt, host, port) && path == rest.subrange(p, rest.len() as int) && !connect)
    &&& (p == -1 && rest.len() > 0 ==> ok && names_destination(rest, dflt, host, port) && path == seq![0x2Fu8] && !connect)
}
// the first header line whose field name is spelled `Host` / `host`, -1 when there is none
pub open spec fn first_host_at(hs: Seq<VStr>, i: int) -> bool { 0 <= i < hs.len() && is_host_exact(hs[i]@) && forall|j: int| 0 <= j < i ==> !is_host_exact(#[trigger] hs[j]@) }
pub open spec fn first_host(hs: Seq<VStr>) -> int { if exists|i: int| first_host_at(hs, i) { choose|i: int| first_host_at(hs, i) } else { -1 } }
pub proof fn lemma_first_host(hs: Seq<VStr>, i: int)
    requires first_host_at(hs, i) ensures first_host(hs) == i
{ let q = choose|q: int| first_host_at(hs, q); if q < i { } else if i < q { } }
pub proof fn lemma_first_host_none(hs: Seq<VStr>)
    requires forall|j: int| 0 <= j < hs.len() ==> !is_host_exact(#[trigger] hs[j]@) ensures first_host(hs) == -1
{ }
// the first header line whose field name is Host in ANY capitalisation (field names are case-insensitive), -1 when none
pub open spec fn first_ci_at(hs: Seq<VStr>, i: int) -> bool { 0 <= i < hs.len() && is_host_ci(hs[i]@) && forall|j: int| 0 <= j < i ==> !is_host_ci(#[trigger] hs[j]@) }
pub open spec fn first_host_ci(hs: Seq<VStr>) -> int { if exists|i: int| first_ci_at(hs, i) { choose|i: int| first_ci_at(hs, i) } else { -1 } }
pub proof fn lemma_first_ci_props(hs: Seq<VStr>)
    ensures first_host_ci(hs) == -1 ==> (forall|j: int| 0 <= j < hs.len() ==> !is_host_ci(#[trigger] hs[j]@)),
            first_host_ci(hs) != -1 ==> first_ci_at(hs, first_host_ci(hs))
{
    if !(exists|i: int| first_ci_at(hs, i)) {
        // no first => none at all (least-element argument)
        assert forall|j: int| 0 <= j < hs.len() implies !is_host_ci(#[trigger] hs[j]@) by { lemma_no_first_no_ci(hs, j); }
    }
}
pub proof fn lemma_no_first_no_ci(hs: Seq<VStr>, j: int)
    requires !(exists|i: int| first_ci_at(hs, i)), 0 <= j < hs.len()
    ensures !is_host_ci(hs[j]@)
    decreases j
{
    if is_host_ci(hs[j]@) {
        if forall|k: int| 0 <= k < j ==> !is_host_ci(#[trigger] hs[k]@) { assert(first_ci_at(hs, j)); }
        else { let k = choose|k: int| 0 <= k < j && is_host_ci(#[trigger] hs[k]@); lemma_no_first_no_ci(hs, k); }
    }
}
// `Host:` and `host:` are spellings of the case-insensitive name
pub proof fn lemma_exact_is_ci(h: Seq<u8>)
    requires is_host_exact(h) ensures is_host_ci(h)
{
    let a = h.subrange(0, 5);
    assert(a[0] == h[0] && a[1] == h[1] && a[2] == h[2] && a[3] == h[3] && a[4] == h[4]);
    let l = lower(h).subrange(0, 5);
    assert(l[0] == lower1(h[0]) && l[1] == lower1(h[1]) && l[2] == lower1(h[2]) && l[3] == lower1(h[3]) && l[4] == lower1(h[4]));
    if occurs_at(h, lit_host_uc(), 0) { assert(a[0] == 72u8 && a[1] == 111u8 && a[2] == 115u8 && a[3] == 116u8 && a[4] == 58u8); }
    else { assert(a[0] == 104u8 && a[1] == 111u8 && a[2] == 115u8 && a[3] == 116u8 && a[4] == 58u8); }
    assert(l =~= lit_host_lc());
}
// origin-form: the first Host header (name in any capitalisation) decides, default port 80, target forwarded as path
pub open spec fn origin_form_result(target: Seq<u8>, hs: Seq<VStr>, ok: bool, host: Seq<u8>, port: u16, path: Seq<u8>, connect: bool) -> bool {
    let i = first_host_ci(hs);
    i >= 0 && host_value(hs[i]@).len() > 0 ==> ok && names_destination(host_value(hs[i]@), 80, host, port) && path == norm_path(target) && !connect
}
pub open spec fn lit_host_name() -> Seq<u8> { seq![104u8, 111u8, 115u8, 116u8] }                                  // "host"
// splitting a header line at its first colon: the name is `host` (any capitalisation) exactly when the line is a Host header,
// and then the value starts at byte 5
pub broadcast proof fn lemma_split_host(h: Seq<u8>, p: int)
    requires 0 <= p < h.len(), h[p] == 0x3A, forall|j: int| 0 <= j < p ==> h[j] != 0x3A
    ensures (#[trigger] lower(h.subrange(0, p)) == lower(lit_host_name())) == is_host_ci(h),
            is_host_ci(h) ==> p == 4
{
    let name = h.subrange(0, p);
    let ln = lower(name); let lh = lower(lit_host_name());
    assert(lh.len() == 4 && lh[0] == 104u8 && lh[1] == 111u8 && lh[2] == 115u8 && lh[3] == 116u8);
    if ln == lh {
        assert(p == 4);
        assert(ln[0] == lower1(h[0]) && ln[1] == lower1(h[1]) && ln[2] == lower1(h[2]) && ln[3] == lower1(h[3]));
        let l = lower(h).subrange(0, 5);
        assert(l[0] == lower1(h[0]) && l[1] == lower1(h[1]) && l[2] == lower1(h[2]) && l[3] == lower1(h[3]) && l[4] == lower1(h[4]));
        assert(l =~= lit_host_lc());
    }
    if is_host_ci(h) {
        let l = lower(h).subrange(0, 5);
        assert(l[0] == lower1(h[0]) && l[1] == lower1(h[1]) && l[2] == lower1(h[2]) && l[3] == lower1(h[3]) && l[4] == lower1(h[4]));
        assert(l[0] == 104u8 && l[1] == 111u8 && l[2] == 115u8 && l[3] == 116u8 && l[4] == 58u8);
        assert(h[4] == 0x3A);
        assert(h[0] != 0x3A && h[1] != 0x3A && h[2] != 0x3A && h[3] != 0x3A);
        if p < 4 { } if p > 4 { }
        assert(p == 4);
        assert(ln[0] == lower1(h[0]) && ln[1] == lower1(h[1]) && ln[2] == lower1(h[2]) && ln[3] == lower1(h[3]));
        assert(ln =~= lh);
    }
}
pub proof fn lemma_no_colon_no_host(h: Seq<u8>)
    requires !occurs(h, 0x3A) ensures !is_host_ci(h)
{
    if is_host_ci(h) { let l = lower(h).subrange(0, 5); assert(l[4] == lower1(h[4])); assert(l[4] == 58u8); assert(h[4] == 0x3A); }
}
pub open spec fn lit_sep() -> Seq<u8> { seq![58u8, 47u8, 47u8] }                                                  // "://"
pub proof fn lemma_lits()
    ensures lit_http().len() == 7, lit_https().len() == 8, lit_sep().len() == 3, lit_host_uc().len() == 5, lit_host_lc().len() == 5, lit_connect().len() == 7
{ }
// where "://" first occurs in a target that starts with http:// or https://
pub proof fn lemma_scheme_pos(t: Seq<u8>, pos: int)
    requires occurs_at(t, lit_http(), 0) || occurs_at(t, lit_https(), 0), occurs_at(t, lit_sep(), pos), forall|j: int| 0 <= j < pos ==> !occurs_at(t, lit_sep(), j)
    ensures occurs_at(t, lit_http(), 0) ==> pos == 4 && !occurs_at(t, lit_https(), 0), occurs_at(t, lit_https(), 0) ==> pos == 5 && !occurs_at(t, lit_http(), 0)
{
    let sp = t.subrange(pos, pos + 3);
    assert(sp[0] == t[pos]); assert(sp[0] == 58u8);
    if occurs_at(t, lit_http(), 0) {
        let a = t.subrange(0, 7);
        assert(a[0] == t[0]); assert(a[1] == t[1]); assert(a[2] == t[2]); assert(a[3] == t[3]); assert(a[4] == t[4]); assert(a[5] == t[5]); assert(a[6] == t[6]);
        assert(a[0] == 104u8 && a[1] == 116u8 && a[2] == 116u8 && a[3] == 112u8 && a[4] == 58u8 && a[5] == 47u8 && a[6] == 47u8);
        assert(t.subrange(4, 7) =~= lit_sep());
        assert(occurs_at(t, lit_sep(), 4));
        if occurs_at(t, lit_https(), 0) { let b = t.subrange(0, 8); assert(b[4] == t[4]); assert(b[4] == 115u8); }
    } else {
        let a = t.subrange(0, 8);
        assert(a[0] == t[0]); assert(a[1] == t[1]); assert(a[2] == t[2]); assert(a[3] == t[3]); assert(a[4] == t[4]); assert(a[5] == t[5]); assert(a[6] == t[6]); assert(a[7] == t[7]);
        assert(a[0] == 104u8 && a[1] == 116u8 && a[2] == 116u8 && a[3] == 112u8 && a[4] == 115u8 && a[5] == 58u8 && a[6] == 47u8 && a[7] == 47u8);
        assert(t.subrange(5, 8) =~= lit_sep());
        assert(occurs_at(t, lit_sep(), 5));
    }
}
pub proof fn lemma_scheme_has_sep(t: Seq<u8>)
    requires occurs_at(t, lit_http(), 0) || occurs_at(t, lit_https(), 0)
    ensures exists|j: int| occurs_at(t, lit_sep(), j)
{
    if occurs_at(t, lit_http(), 0) {
        let a = t.subrange(0, 7);
        assert(a[4] == t[4]); assert(a[5] == t[5]); assert(a[6] == t[6]);
        assert(a[4] == 58u8 && a[5] == 47u8 && a[6] == 47u8);
        assert(t.subrange(4, 7) =~= lit_sep());
        assert(occurs_at(t, lit_sep(), 4));
    } else {
        let a = t.subrange(0, 8);
        assert(a[5] == t[5]); assert(a[6] == t[6]); assert(a[7] == t[7]);
        assert(a[5] == 58u8 && a[6] == 47u8 && a[7] == 47u8);
        assert(t.subrange(5, 8) =~= lit_sep());
        assert(occurs_at(t, lit_sep(), 5));
    }
}
// ---- the forwarded request (RFC 7230 5.4 / 5.7): same method, origin-form target and version; header lines in order;
//      only the Host header normalised to the destination; a Host header is added when the client sent none ----
pub open spec fn crlf() -> Seq<u8> { seq![13u8, 10u8] }
pub open spec fn vx_host_text(host: Seq<u8>, port: u16) -> Seq<u8> { if port == 80 || port == 443 { host } else { host + seq![58u8] + dec(port) } }
pub open spec fn vx_host_line(host: Seq<u8>, port: u16) -> Seq<u8> { seq![72u8, 111u8, 115u8, 116u8, 58u8, 32u8] + vx_host_text(host, port) + crlf() }
pub open spec fn vx_request_line(method: Seq<u8>, path: Seq<u8>, version: Seq<u8>) -> Seq<u8> {
    method + seq![32u8] + (if path.len() == 0 { seq![47u8] } else { path }) + seq![32u8] + version + crlf()
}
pub open spec fn fwd_one(h: Seq<u8>, hl: Seq<u8>) -> Seq<u8> { if h.len() == 0 { Seq::<u8>::empty() } else if is_host_ci(h) { hl } else { h + crlf() } }
pub open spec fn fwd_headers(hs: Seq<VStr>, hl: Seq<u8>) -> Seq<u8> decreases hs.len() {
    if hs.len() == 0 { Seq::<u8>::empty() } else { fwd_headers(hs.drop_last(), hl) + fwd_one(hs.last()@, hl) }
}
pub open spec fn any_host(hs: Seq<VStr>) -> bool { exists|i: int| 0 <= i < hs.len() && hs[i]@.len() > 0 && is_host_ci(#[trigger] hs[i]@) }
pub open spec fn forward_text(method: Seq<u8>, path: Seq<u8>, version: Seq<u8>, host: Seq<u8>, port: u16, hs: Seq<VStr>) -> Seq<u8> {
    let hl = vx_host_line(host, port);
    vx_request_line(method, path, version) + fwd_headers(hs, hl) + (if any_host(hs) { Seq::<u8>::empty() } else { hl }) + crlf()
}
pub proof fn lemma_fwd_step(hs: Seq<VStr>, i: int, hl: Seq<u8>)
    requires 0 <= i < hs.len()
    ensures fwd_headers(hs.subrange(0, i + 1), hl) == fwd_headers(hs.subrange(0, i), hl) + fwd_one(hs[i]@, hl),
            any_host(hs.subrange(0, i + 1)) == (any_host(hs.subrange(0, i)) || (hs[i]@.len() > 0 && is_host_ci(hs[i]@)))
{
    let a = hs.subrange(0, i + 1); let b = hs.subrange(0, i);
    assert(a.drop_last() =~= b); assert(a.last() == hs[i]);
    if any_host(b) { let k = choose|k: int| 0 <= k < b.len() && b[k]@.len() > 0 && is_host_ci(#[trigger] b[k]@); assert(a[k] == b[k]); }
    if hs[i]@.len() > 0 && is_host_ci(hs[i]@) { assert(a[i] == hs[i]); }
    if any_host(a) { let k = choose|k: int| 0 <= k < a.len() && a[k]@.len() > 0 && is_host_ci(#[trigger] a[k]@); if k < i { assert(b[k] == a[k]); } }
}
// everything determine_target promises, as one predicate (used by its caller)
pub open spec fn target_derivation(method: Seq<u8>, target: Seq<u8>, hs: Seq<VStr>, ok: bool, host: Seq<u8>, port: u16, path: Seq<u8>, connect: bool) -> bool {
    &&& (is_connect(method) ==> ok && names_destination(target, 443, host, port) && path.len() == 0 && connect)
    &&& (!is_connect(method) && occurs_at(target, lit_http(), 0) ==> absolute_form_result(target, 7, 80, ok, host, port, path, connect))
    &&& (!is_connect(method) && occurs_at(target, lit_https(), 0) ==> absolute_form_result(target, 8, 443, ok, host, port, path, connect))
    &&& (!is_connect(method) && !occurs_at(target, lit_http(), 0) && !occurs_at(target, lit_https(), 0) ==> origin_form_result(target, hs, ok, host, port, path, connect))
    &&& (!is_connect(method) && !occurs_at(target, lit_http(), 0) && !occurs_at(target, lit_https(), 0) && first_host_ci(hs) == -1 ==> !ok)
}
pub open spec fn lit_http11() -> Seq<u8> { seq![72u8, 84u8, 84u8, 80u8, 47u8, 49u8, 46u8, 49u8] }                 // "HTTP/1.1"
pub proof fn lemma_split_nonempty(s: Seq<u8>, p: Seq<u8>)
    ensures split_spec(s, p).len() >= 1
    decreases s.len()
{
    let i = first_occ(s, p);
    if p.len() == 0 || i < 0 || i + p.len() > s.len() { } else { lemma_split_nonempty(s.subrange(i + p.len(), s.len() as int), p); }
}
// ---- where the header block of a request ends in the client's byte stream: just past the FIRST CR LF CR LF ----
pub open spec fn header_end_at(a: Seq<u8>, n: int) -> bool { n >= 4 && term_at(a, n - 4) && forall|j: int| 0 <= j < n - 4 ==> !term_at(a, j) }
pub open spec fn header_end(a: Seq<u8>) -> int { if exists|n: int| header_end_at(a, n) { choose|n: int| header_end_at(a, n) } else { -1 } }
pub proof fn lemma_header_end(a: Seq<u8>, n: int)
    requires header_end_at(a, n) ensures header_end(a) == n
{ let q = choose|q: int| header_end_at(a, q); if q < n { } else if n < q { } }
// the same as an automatic fact: fires from the term first_occ_at(t, p, pos) that str::find's contract produces
pub broadcast proof fn lemma_scheme_pos_auto(t: Seq<u8>, p: Seq<u8>, pos: int)
    requires occurs_at(t, lit_http(), 0) || occurs_at(t, lit_https(), 0), p.len() == 3, p[0] == 58u8, p[1] == 47u8, p[2] == 47u8, #[trigger] first_occ_at(t, p, pos), str_wf(t)
    ensures occurs_at(t, lit_http(), 0) ==> pos == 4 && !occurs_at(t, lit_https(), 0), occurs_at(t, lit_https(), 0) ==> pos == 5 && !occurs_at(t, lit_http(), 0),
            boundary(t, pos + 3), pos + 3 <= t.len()
{
    assert(p =~= lit_sep());
    lemma_scheme_pos(t, pos);
    let sp = t.subrange(pos, pos + 3);
    assert(sp[2] == t[pos + 2]); assert(t[pos + 2] == 47u8);
}
