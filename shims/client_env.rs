// ---- shim client_env: the session / stream / pool as `Client::create_proxy_stream` sees them (TRUSTED, effect log) ----
pub enum CEffect {
    Open { id: u32, outcome: std::result::Result<std::result::Result<Result<()>, RecvError>, Elapsed> },   // session.open_stream() returned stream `id`; outcome = what awaiting its verdict under the timeout will yield (prophecy)
    DisableBuffering,
    Data { id: u32, bytes: Seq<u8> },          // session.write_data_frame(id, bytes) accepted
    CloseWithError { id: u32 },                // stream.close_with_error(..)
    Fin { id: u32 },                           // stream.send_fin(): the end of the stream announced to the peer
    Closed,                                    // session.close(): the whole session torn down
    Released,                                  // the session went back to the pool (Client::release_session, under contract in group `reuse`)
}
pub struct RecvError;
pub struct Elapsed;
// the one-shot verdict receiver; `outcome()` is the prophecy of what awaiting it under the timeout yields
#[verifier::external_body]
pub struct SynackRx { _p: () }
impl SynackRx { pub uninterp spec fn outcome(&self) -> std::result::Result<std::result::Result<Result<()>, RecvError>, Elapsed>; pub uninterp spec fn sid(&self) -> u32; }
pub struct Duration { pub s: u64 }
impl Duration {
    pub const fn from_secs(s: u64) -> (r: Duration) ensures r.s == s { Duration { s } }
    pub fn as_secs(&self) -> (r: u64) ensures r == self.s { self.s }
}
pub mod tokio { pub mod time {
    use super::super::*;
    #[verifier::external_body]
    pub fn timeout(d: Duration, rx: SynackRx) -> (r: std::result::Result<std::result::Result<Result<()>, RecvError>, Elapsed>)
        ensures r == rx.outcome()
    { unimplemented!() }
} }
pub struct Stream { pub id: u32 }
impl Stream {
    pub fn id(&self) -> (r: u32) ensures r == self.id { self.id }
    #[verifier::external_body]
    pub fn close_with_error(&self, err: AnyTlsError, fx: &mut Ghost<Seq<CEffect>>)
        ensures final(fx)@ == old(fx)@.push(CEffect::CloseWithError { id: self.id })
    { unimplemented!() }
    #[verifier::external_body]
    pub fn send_fin(&self, fx: &mut Ghost<Seq<CEffect>>) ensures final(fx)@ == old(fx)@.push(CEffect::Fin { id: self.id }) { }
}
pub struct Session { pub ghost sid: int }
impl Session {
    #[verifier::external_body]
    pub fn open_stream(&self, fx: &mut Ghost<Seq<CEffect>>) -> (r: Result<(Arc<Stream>, SynackRx)>)
        ensures r is Ok ==> final(fx)@ == old(fx)@.push(CEffect::Open { id: r->Ok_0.0.id, outcome: r->Ok_0.1.outcome() }) && r->Ok_0.1.sid() == r->Ok_0.0.id,
                r is Err ==> final(fx)@ == old(fx)@
    { unimplemented!() }
    #[verifier::external_body]
    pub fn disable_buffering(&self, fx: &mut Ghost<Seq<CEffect>>)
        ensures final(fx)@ == old(fx)@.push(CEffect::DisableBuffering)
    { unimplemented!() }
    #[verifier::external_body]
    pub fn write_data_frame(&self, stream_id: u32, data: Bytes, fx: &mut Ghost<Seq<CEffect>>) -> (r: Result<()>)
        ensures r is Ok ==> final(fx)@ == old(fx)@.push(CEffect::Data { id: stream_id, bytes: data@ }),
                r is Err ==> final(fx)@ == old(fx)@
    { unimplemented!() }
    #[verifier::external_body]
    pub fn close(&self, fx: &mut Ghost<Seq<CEffect>>) -> (r: Result<()>) ensures final(fx)@ == old(fx)@.push(CEffect::Closed) { unimplemented!() }
    #[verifier::external_body]
    pub fn peer_version(&self) -> (r: u8) { unimplemented!() }
    #[verifier::external_body]
    pub fn is_closed(&self) -> (r: bool) { unimplemented!() }
}
pub mod session { pub use super::Stream; pub use super::Session; }
pub struct Client { pub _p: () }
impl Client {
    // session acquisition (pool reuse or a new TLS session): opaque here
    #[verifier::external_body]
    pub fn create_stream(&self) -> (r: Result<Arc<Session>>) { unimplemented!() }
    #[verifier::external_body]
    pub fn release_session(&self, session: Arc<Session>, fx: &mut Ghost<Seq<CEffect>>)
        ensures final(fx)@ == old(fx)@.push(CEffect::Released)
    { unimplemented!() }
}
pub use std::sync::Arc;
// address literals: parsing is the inverse of the textual form (std guarantee); the textual forms of the three kinds are disjoint
#[verifier::external_body]
pub fn vx_parse_Ipv4Addr(s: &String) -> (r: std::result::Result<Ipv4Addr, ()>)
    ensures r is Ok ==> ip4_display(r->Ok_0.o@) == s@, r is Err ==> forall|o: Seq<u8>| o.len() == 4 ==> #[trigger] ip4_display(o) != s@
{ unimplemented!() }
#[verifier::external_body]
pub fn vx_parse_Ipv6Addr(s: &String) -> (r: std::result::Result<Ipv6Addr, ()>)
    ensures r is Ok ==> ip6_display(r->Ok_0.o@) == s@, r is Err ==> forall|o: Seq<u8>| o.len() == 16 ==> #[trigger] ip6_display(o) != s@
{ unimplemented!() }
pub trait VxAsBytes { spec fn vx_bytes(&self) -> Seq<u8>; }
#[verifier::external_body]
pub fn vx_as_bytes(s: &String) -> (r: &[u8]) ensures r@ == utf8_encode(s@) { s.as_bytes() }
