#!/bin/sh
# tools/try_seed.sh <patch.diff> <PROP> [more props]: apply to /repo, run checks, revert, then rewrite the evidence of
# those properties from the unchanged tree (a run on a modified tree must never be what /verif/evidence holds)
P="$1"; shift
cd /repo && git apply "$P" || { echo "PATCH DOES NOT APPLY"; exit 3; }
cd /verif
for c in "$@"; do ./check $c | grep -E "^(VIOLATION|UNDECIDED|KNOWN|C[0-9]+:)" | cut -c1-260; echo "rc=$?"; done
git -C /repo checkout -- .
for c in "$@"; do ./check $c >/dev/null 2>&1; done
