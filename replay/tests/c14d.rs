//! F-C14-d (repaired): the liveness monitor awaited the write of its keep-alive request without a limit; with stream traffic towards
//! a dead peer filling the transport it hung in that write and never gave the peer up. Schedule and test body written by an
//! independent seeding agent (as the demonstration of a seeded change to close()); it fails on the tree before 0d3276a whenever the
//! transport jams before a tick that is not yet past the deadline.
//! C14 demo: a session whose peer stops answering keep-alive requests must be closed WITH ALL ITS WAITERS RELEASED
//! within timeout + one interval of the peer's last answer - also when stream traffic towards the dead peer has
//! jammed the transport (the writer is blocked in a write that the peer will never drain).
//!
//! Schedule (virtual time, interval = 2 s, timeout = 3 s, zero network delay):
//!   t=0  first keep-alive request (flushed together with Settings/SYN/PSH)  -> answered
//!   t=2  second request                                                     -> answered (the peer's last answer)
//!   t=4  third request: the peer reads it, does not answer and stops reading for good
//!   t=4+ the application writes 1 MiB to its stream: the transport (64 KiB) fills up, the forwarding task blocks in
//!        the write while holding the writer lock
//!   t=6  the monitor sees the unanswered request (last answer 4 s old > 3 s) and closes the session
//!   deadline for the release of all waiters: t = 2 + 3 + 2 = 7
use anytls_rs::*;
use bytes::{Bytes, BytesMut};
use std::sync::Arc;
use std::sync::atomic::{AtomicBool, AtomicUsize, Ordering};
use tokio::io::{AsyncReadExt, AsyncWriteExt, duplex};
use tokio::time::{Duration, Instant};
use tokio_util::codec::{Decoder, Encoder};

const INTERVAL: Duration = Duration::from_secs(2);
const TIMEOUT: Duration = Duration::from_secs(3);

#[tokio::test(start_paused = true)]
async fn f_c14_d_a_dead_peer_with_a_jammed_transport_is_given_up_and_all_waiters_released_in_time() {
    let (client_io, mut peer_io) = duplex(64 * 1024);
    let (client_read, client_write) = tokio::io::split(client_io);

    let session = Arc::new(Session::new_client(
        client_read,
        client_write,
        PaddingFactory::default(),
        Some(SessionHeartbeatConfig {
            interval: INTERVAL,
            timeout: TIMEOUT,
        }),
    ));
    let start = Instant::now();

    // The peer: answers the first two keep-alive requests, reads the third one, then neither answers nor reads any
    // more. The transport stays open.
    let answered = Arc::new(AtomicUsize::new(0));
    let silent = Arc::new(AtomicBool::new(false));
    let last_answer_ms = Arc::new(AtomicUsize::new(0));
    {
        let answered = answered.clone();
        let silent = silent.clone();
        let last_answer_ms = last_answer_ms.clone();
        tokio::spawn(async move {
            let mut codec = FrameCodec;
            let mut buf = BytesMut::new();
            'outer: loop {
                let n = peer_io.read_buf(&mut buf).await.unwrap();
                if n == 0 {
                    break;
                }
                while let Some(frame) = codec.decode(&mut buf).unwrap() {
                    if frame.cmd == Command::HeartRequest {
                        if answered.load(Ordering::SeqCst) < 2 {
                            let mut out = BytesMut::new();
                            codec
                                .encode(Frame::control(Command::HeartResponse, 0), &mut out)
                                .unwrap();
                            peer_io.write_all(&out).await.unwrap();
                            answered.fetch_add(1, Ordering::SeqCst);
                            last_answer_ms
                                .store(start.elapsed().as_millis() as usize, Ordering::SeqCst);
                        } else {
                            silent.store(true, Ordering::SeqCst);
                            break 'outer;
                        }
                    }
                }
            }
            // keep the transport open, never read or write again
            std::future::pending::<()>().await;
            drop(peer_io);
        });
    }

    session.clone().start_client().await.unwrap();

    // Open a stream the way Client::create_proxy_stream does; the peer never acknowledges it
    let (stream, synack_rx) = session.open_stream().await.unwrap();
    session.disable_buffering();
    session
        .write_data_frame(stream.id(), Bytes::from_static(b"\x01\x7f\x00\x00\x01\x00\x50"))
        .await
        .unwrap();

    // Waiter 1: the task waiting for the stream to be acknowledged
    let synack_waiter = tokio::spawn(async move { synack_rx.await });
    // Waiter 2: a reader blocked on the stream
    let reader_stream = stream.clone();
    let read_waiter = tokio::spawn(async move {
        let mut buf = [0u8; 16];
        let reader = reader_stream.reader();
        let mut guard = reader.lock().await;
        guard.read(&mut buf).await
    });

    // Wait until the peer has fallen silent (it has read the third request, at t = 4 s)
    while !silent.load(Ordering::SeqCst) {
        tokio::time::sleep(Duration::from_millis(50)).await;
        assert!(
            start.elapsed() < Duration::from_secs(30),
            "the peer never saw a third keep-alive request"
        );
    }
    assert_eq!(answered.load(Ordering::SeqCst), 2);
    assert!(!session.is_closed(), "closed while the peer was answering");
    let last_answer = Duration::from_millis(last_answer_ms.load(Ordering::SeqCst) as u64);

    // Stream traffic towards the dead peer: far more than the transport can hold
    for _ in 0..16 {
        stream.send_data(Bytes::from(vec![0x55u8; 64 * 1024])).unwrap();
    }

    // The property's deadline: timeout + one interval after the peer's last answer (plus a small margin)
    let deadline = last_answer + TIMEOUT + INTERVAL + Duration::from_millis(100);
    tokio::time::sleep(deadline.saturating_sub(start.elapsed())).await;

    assert!(
        session.is_closed(),
        "session not closed {:?} after the peer's last answer",
        start.elapsed() - last_answer
    );
    assert!(
        synack_waiter.is_finished(),
        "the session is closed but the task waiting for SYNACK has not been released"
    );
    assert!(
        read_waiter.is_finished(),
        "the session is closed but the blocked stream reader has not been released"
    );
    assert!(synack_waiter.await.unwrap().unwrap().is_err());
    assert_eq!(read_waiter.await.unwrap().unwrap(), 0);
}
