//! Replays of findings that need the full client/server stack (SOCKS5 / HTTP front-ends).
#![allow(dead_code)]
mod common;
use common::{TestConfig, create_test_client, create_test_server};
use std::net::TcpListener;
use std::sync::Arc;
use tokio::io::{AsyncReadExt, AsyncWriteExt};
use tokio::net::TcpStream;
use tokio::time::{Duration, sleep, timeout};

fn available_port() -> u16 { TcpListener::bind("127.0.0.1:0").unwrap().local_addr().unwrap().port() }

async fn stack() -> anyhow::Result<(String, u16)> {
    let server_port = available_port();
    let client_port = available_port();
    let config = TestConfig { server_addr: format!("127.0.0.1:{server_port}"), client_listen: format!("127.0.0.1:{client_port}"), password: "replay_password".to_string() };
    let server = create_test_server(&config).await?;
    let server_addr = config.server_addr.clone();
    tokio::spawn(async move { let _ = server.listen(&server_addr).await; });
    sleep(Duration::from_millis(300)).await;
    let client = create_test_client(&config).await?;
    let socks_addr = config.client_listen.clone();
    let c2 = Arc::clone(&client);
    let a2 = socks_addr.clone();
    tokio::spawn(async move { let _ = anytls_rs::client::start_socks5_server(&a2, c2).await; });
    sleep(Duration::from_millis(400)).await;
    // an upstream that accepts and holds connections
    let up = tokio::net::TcpListener::bind("127.0.0.1:0").await?;
    let up_port = up.local_addr()?.port();
    tokio::spawn(async move { loop { if let Ok((mut s, _)) = up.accept().await { tokio::spawn(async move { let mut b = [0u8; 64]; let _ = s.read(&mut b).await; }); } } });
    Ok((socks_addr, up_port))
}

/// F-C16-a  socks5.vx_block_socks5.tunnel_only_for_connect_requests
/// a BIND (0x02) or UDP ASSOCIATE (0x03) request must not be tunnelled as CONNECT and answered 'succeeded'
#[tokio::test]
async fn f_c16_a_only_connect_is_tunnelled() -> anyhow::Result<()> {
    let (socks_addr, up_port) = stack().await?;
    for cmd in [0x02u8, 0x03u8] {
        let mut s = timeout(Duration::from_secs(5), TcpStream::connect(&socks_addr)).await??;
        s.write_all(&[5, 1, 0]).await?;
        let mut sel = [0u8; 2];
        s.read_exact(&mut sel).await?;
        assert_eq!(sel, [5, 0]);
        let mut req = vec![5, cmd, 0, 1, 127, 0, 0, 1];
        req.extend_from_slice(&up_port.to_be_bytes());
        s.write_all(&req).await?;
        let mut rep = [0u8; 10];
        let n = timeout(Duration::from_secs(5), s.read(&mut rep)).await??;
        assert!(n == 0 || rep[1] != 0, "command {:#04x} was answered 'succeeded' (reply {:?}): the front-end tunnels it as CONNECT", cmd, &rep[..n]);
    }
    Ok(())
}

/// F-C10-a  handler.proxy_tcp_connection_with_synack_internal.exactly_one_synack_for_this_stream_on_every_exit
/// a destination whose name cannot be resolved must be answered with the failure reason, not left to the 30 s SYNACK timeout
#[tokio::test]
async fn f_c10_a_unresolvable_name_is_answered() -> anyhow::Result<()> {
    let (socks_addr, _up_port) = stack().await?;
    let mut s = timeout(Duration::from_secs(5), TcpStream::connect(&socks_addr)).await??;
    s.write_all(&[5, 1, 0]).await?;
    let mut sel = [0u8; 2];
    s.read_exact(&mut sel).await?;
    let host = b"no-such-host.invalid";
    let mut req = vec![5, 1, 0, 3, host.len() as u8];
    req.extend_from_slice(host);
    req.extend_from_slice(&80u16.to_be_bytes());
    s.write_all(&req).await?;
    let t0 = std::time::Instant::now();
    let mut rep = [0u8; 10];
    let r = timeout(Duration::from_secs(25), s.read(&mut rep)).await;
    assert!(r.is_ok(), "no verdict after {:?}: the server never answered the open (the client is waiting for its 30 s SYNACK timeout)", t0.elapsed());
    let n = r.unwrap()?;
    assert!(n == 0 || rep[1] != 0);
    Ok(())
}

async fn http_stack() -> anyhow::Result<(String, u16)> {
    let server_port = available_port();
    let client_port = available_port();
    let config = TestConfig { server_addr: format!("127.0.0.1:{server_port}"), client_listen: format!("127.0.0.1:{client_port}"), password: "replay_password".to_string() };
    let server = create_test_server(&config).await?;
    let server_addr = config.server_addr.clone();
    tokio::spawn(async move { let _ = server.listen(&server_addr).await; });
    sleep(Duration::from_millis(300)).await;
    let client = create_test_client(&config).await?;
    let http_addr = config.client_listen.clone();
    let c2 = Arc::clone(&client);
    let a2 = http_addr.clone();
    tokio::spawn(async move { let _ = anytls_rs::client::start_http_proxy_server(&a2, c2).await; });
    sleep(Duration::from_millis(400)).await;
    // an upstream echo server
    let up = tokio::net::TcpListener::bind("127.0.0.1:0").await?;
    let up_port = up.local_addr()?.port();
    tokio::spawn(async move { loop { if let Ok((mut s, _)) = up.accept().await { tokio::spawn(async move { let mut b = [0u8; 1024]; loop { match s.read(&mut b).await { Ok(0) | Err(_) => break, Ok(n) => { if s.write_all(&b[..n]).await.is_err() { break; } } } } }); } } });
    Ok((http_addr, up_port))
}

/// F-C17-a  http.vx_block_http.connect_early_bytes_are_forwarded
/// bytes that arrive in the same segment as the CONNECT header must reach the target exactly once
#[tokio::test]
async fn f_c17_a_connect_early_bytes_reach_the_target() -> anyhow::Result<()> {
    let (http_addr, up_port) = http_stack().await?;
    let mut s = timeout(Duration::from_secs(5), TcpStream::connect(&http_addr)).await??;
    let req = format!("CONNECT 127.0.0.1:{up_port} HTTP/1.1\r\nHost: 127.0.0.1:{up_port}\r\n\r\nearly-bytes");
    s.write_all(req.as_bytes()).await?;
    let mut got = Vec::new();
    let mut buf = [0u8; 1024];
    let deadline = tokio::time::Instant::now() + Duration::from_secs(5);
    while tokio::time::Instant::now() < deadline && !String::from_utf8_lossy(&got).contains("early-bytes") {
        match timeout(Duration::from_millis(500), s.read(&mut buf)).await { Ok(Ok(n)) if n > 0 => got.extend_from_slice(&buf[..n]), Ok(Ok(_)) => break, _ => {} }
    }
    let text = String::from_utf8_lossy(&got).to_string();
    assert!(text.starts_with("HTTP/1.1 200"), "no 200: {:?}", text);
    assert!(text.contains("early-bytes"), "the bytes sent together with the CONNECT header never reached the target (echo missing): {:?}", text);
    Ok(())
}

/// F-C17-b  http_text.determine_target.host_header_is_recognised_in_any_capitalisation
/// an origin-form request whose Host field name is not spelled exactly `Host`/`host` (field names are case-insensitive)
/// must be forwarded to that host like any other; the upstream echo returns the rewritten request
#[tokio::test]
async fn f_c17_b_host_header_in_any_capitalisation() -> anyhow::Result<()> {
    let (http_addr, up_port) = http_stack().await?;
    let mut s = timeout(Duration::from_secs(5), TcpStream::connect(&http_addr)).await??;
    let req = format!("GET /x HTTP/1.1\r\nHOST: 127.0.0.1:{up_port}\r\nAccept: */*\r\n\r\n");
    s.write_all(req.as_bytes()).await?;
    let mut got = Vec::new();
    let mut buf = [0u8; 1024];
    let deadline = tokio::time::Instant::now() + Duration::from_secs(5);
    while tokio::time::Instant::now() < deadline && !String::from_utf8_lossy(&got).contains("\r\n\r\n") {
        match timeout(Duration::from_millis(500), s.read(&mut buf)).await { Ok(Ok(n)) if n > 0 => got.extend_from_slice(&buf[..n]), Ok(Ok(_)) => break, _ => {} }
    }
    let text = String::from_utf8_lossy(&got).to_string();
    assert!(text.starts_with("GET /x HTTP/1.1\r\n"), "the request was not forwarded to the host named by `HOST:` (got {:?})", text);
    assert_eq!(text.to_ascii_lowercase().matches("\r\nhost:").count(), 1, "exactly one Host line expected: {:?}", text);
    Ok(())
}
