"""Further idiom rewrites of class R (DESIGN.md 2.2), each a 1:1 replacement by a shim call
whose contract states the documented behaviour of the replaced idiom.  Kept in a table so
that the list is closed and auditable."""
from .tok import Tok, match_close, match_open, texts, is_p, is_id, toks_of, find_seq, OPEN, CLOSE
from .extract import Undecided, _expr_start, _w


def _call(name, args, ws):
    out = [Tok("id", name, ws), Tok("p", "(", "")]
    for q, a in enumerate(args):
        if q:
            out.append(Tok("p", ",", ""))
        out += [_w(x, (" " if q else "") if k == 0 else x.ws) for k, x in enumerate(a)]
    out.append(Tok("p", ")", ""))
    return out


def _ref_patterns(toks, au):
    """let PAT = E else { .. };   where PAT binds through a reference pattern `&x` (Verus: "ref patterns" unsupported)
         ->   let PAT' = E else { .. }; let x = *vx_r_x;     with `&x` replaced by `vx_r_x` in PAT'
    (binding by `&x` IS a copy out of the reference; only for let-else statements, where the pattern is irrefutable afterwards)"""
    i = 0
    while i < len(toks):
        if is_id(toks[i], "let"):
            # pattern up to '=' at depth 0
            j, depth, refs = i + 1, 0, []
            while j < len(toks) and not (depth == 0 and is_p(toks[j], "=")) and not is_p(toks[j], ";"):
                if toks[j].kind == "p" and toks[j].text in ("(", "[", "{"):
                    depth += 1
                elif toks[j].kind == "p" and toks[j].text in (")", "]", "}"):
                    depth -= 1
                elif is_p(toks[j], "&") and toks[j + 1].kind == "id" and toks[j + 1].text not in ("mut",) and depth > 0:
                    refs.append(j)
                j += 1
            if refs and j < len(toks) and is_p(toks[j], "="):
                # find `else {` at depth 0 before the terminating ';'
                k, depth, else_at = j + 1, 0, None
                while k < len(toks):
                    if toks[k].kind == "p" and toks[k].text in ("(", "[", "{"):
                        depth += 1
                    elif toks[k].kind == "p" and toks[k].text in (")", "]", "}"):
                        depth -= 1
                    elif depth == 0 and is_id(toks[k], "else") and is_p(toks[k + 1], "{"):
                        else_at = k
                        break
                    elif depth == 0 and is_p(toks[k], ";"):
                        break
                    k += 1
                if else_at is not None:
                    end = match_close(toks, else_at + 1)
                    if is_p(toks[end + 1], ";"):
                        names = []
                        for r in reversed(refs):
                            nm = toks[r + 1].text
                            names.append(nm)
                            toks[r:r + 2] = [Tok("id", "vx_r_" + nm, toks[r].ws)]
                            end -= 1
                        tail = []
                        for nm in reversed(names):
                            tail += toks_of(f" let {nm} = *vx_r_{nm};")
                        toks[end + 2:end + 2] = tail
                        au.note("R", "let-else with a reference pattern `&x` -> bind the reference, then `let x = *r;`")
                        i = end + 2 + len(tail)
                        continue
        i += 1
    return toks


def apply(toks, au, opts):
    toks = _ref_patterns(list(toks), au)
    out, i, n = [], 0, len(toks)
    while i < n:
        t = toks[i]
        # String::from_utf8_lossy(E).to_string()  ->  vx_lossy_string(E)
        if is_id(t, "String") and texts(toks, i + 1, 4) == [":", ":", "from_utf8_lossy", "("]:
            k = match_close(toks, i + 4)
            if texts(toks, k + 1, 4) == [".", "to_string", "(", ")"]:
                au.note("R", "String::from_utf8_lossy(E).to_string() -> vx_lossy_string(E)")
                out += _call("vx_lossy_string", [toks[i + 5:k]], t.ws)
                i = k + 5
                continue
        # X.ends_with(P) / X.starts_with(P)  with P a string literal or a CONSTANT  ->  vx_str_ends_with(&X, P) / vx_str_starts_with(&X, P)
        #   (std `str` methods are outside Verus' reach; the shims give them uninterpreted meanings.  Not in string-model items, where
        #   X is a VStr with real contracts.)
        if not opts.get("strmodel") and is_p(t, ".") and toks[i + 1].kind == "id" and toks[i + 1].text in ("ends_with", "starts_with") and is_p(toks[i + 2], "(") \
                and is_p(toks[i + 4], ")") and (toks[i + 3].kind == "str" or (toks[i + 3].kind == "id" and toks[i + 3].text.isupper())):
            s_ = _expr_start(out)
            recv = out[s_:]
            ws0 = recv[0].ws
            del out[s_:]
            au.note("R", f"X.{toks[i+1].text}(P) -> vx_str_{toks[i+1].text}(&X, P)")
            out += _call("vx_str_" + toks[i + 1].text, [[Tok("p", "&", "")] + [_w(recv[0], "")] + recv[1:], [toks[i + 3]]], ws0)
            i += 5
            continue
        # String::from("literal")  ->  vx_string_from("literal")        Vec::from(E)  ->  vx_slice_to_vec(E)   (E a byte slice; anything else is a type error -> undecided)
        if is_id(t, "String") and texts(toks, i + 1, 4) == [":", ":", "from", "("] and toks[i + 5].kind == "str" and is_p(toks[i + 6], ")"):
            au.note("R", 'String::from("lit") -> vx_string_from("lit")')
            out += _call("vx_string_from", [[toks[i + 5]]], t.ws)
            i += 7
            continue
        if is_id(t, "Vec") and texts(toks, i + 1, 4) == [":", ":", "from", "("]:
            k = match_close(toks, i + 4)
            au.note("R", "Vec::from(E) -> vx_slice_to_vec(E)")
            out += _call("vx_slice_to_vec", [[x.copy() for x in toks[i + 5:k]]], t.ws)
            i = k + 1
            continue
        # "literal".into()  ->  vx_string_from("literal")
        if t.kind == "str" and texts(toks, i + 1, 4) == [".", "into", "(", ")"]:
            au.note("R", '"lit".into() -> vx_string_from("lit")')
            out += _call("vx_string_from", [[t]], t.ws)
            i += 5
            continue
        # "literal".to_string()  ->  vx_string_from("literal")
        if t.kind == "str" and texts(toks, i + 1, 4) == [".", "to_string", "(", ")"]:
            au.note("R", '"lit".to_string() -> vx_string_from("lit")')
            out += _call("vx_string_from", [[t]], t.ws)
            i += 5
            continue
        # X.parse::<T>()  ->  vx_parse_T(X)
        if is_p(t, ".") and is_id(toks[i + 1], "parse") and texts(toks, i + 2, 3) == [":", ":", "<"] and texts(toks, i + 6, 3) == [">", "(", ")"]:
            ty = toks[i + 5].text
            s = _expr_start(out)
            recv = out[s:]
            ws0 = recv[0].ws
            del out[s:]
            au.note("R", f"X.parse::<{ty}>() -> vx_parse_{ty}(&X)")
            out += _call(f"vx_parse_{ty}", [[Tok("p", "&", "")] + [_w(recv[0], "")] + recv[1:]], ws0)
            i += 9
            continue
        # X.contains("literal")  ->  vx_str_contains(&X, "literal")    (str::contains is generic over Pattern)
        if is_p(t, ".") and is_id(toks[i + 1], "contains") and is_p(toks[i + 2], "(") and toks[i + 3].kind == "str" and is_p(toks[i + 4], ")"):
            s = _expr_start(out)
            recv = out[s:]
            ws0 = recv[0].ws
            del out[s:]
            au.note("R", 'X.contains("lit") -> vx_str_contains(&X, "lit")')
            out += _call("vx_str_contains", [[Tok("p", "&", "")] + [_w(recv[0], "")] + recv[1:], [toks[i + 3]]], ws0)
            i += 5
            continue
        # X.split(C).collect()  ->  vx_str_split_collect(X, C)
        if is_p(t, ".") and is_id(toks[i + 1], "split") and is_p(toks[i + 2], "("):
            k = match_close(toks, i + 2)
            if texts(toks, k + 1, 4) == [".", "collect", "(", ")"]:
                s = _expr_start(out)
                recv = out[s:]
                ws0 = recv[0].ws
                del out[s:]
                au.note("R", "X.split(c).collect() -> vx_str_split_collect(X, c)")
                out += _call("vx_str_split_collect", [[_w(recv[0], "")] + recv[1:], toks[i + 3:k]], ws0)
                i = k + 5
                continue
        # X.split_once(C)  ->  vx_str_split_once(X, C)
        if is_p(t, ".") and is_id(toks[i + 1], "split_once") and is_p(toks[i + 2], "("):
            k = match_close(toks, i + 2)
            s = _expr_start(out)
            recv = out[s:]
            ws0 = recv[0].ws
            del out[s:]
            au.note("R", "X.split_once(c) -> vx_str_split_once(X, c)")
            out += _call("vx_str_split_once", [[_w(recv[0], "")] + recv[1:], toks[i + 3:k]], ws0)
            i = k + 1
            continue
        # rand::random_range(A..=B)  ->  vx_random_range_incl(A, B)
        if is_id(t, "rand") and texts(toks, i + 1, 4) == [":", ":", "random_range", "("]:
            k = match_close(toks, i + 4)
            inner = toks[i + 5:k]
            z = next((q for q in range(len(inner) - 2) if is_p(inner[q], ".") and is_p(inner[q + 1], ".") and is_p(inner[q + 2], "=")), None)
            if z is None:
                raise Undecided("rand::random_range over a non-inclusive range is outside the rewrite table")
            au.note("R", "rand::random_range(a..=b) -> vx_random_range_incl(a, b)")
            out += _call("vx_random_range_incl", [inner[:z], inner[z + 3:]], t.ws)
            i = k + 1
            continue
        # X.sort_unstable_by_key(closure) / sort_by_key / sort_unstable_by / sort_by   ->   vx_sort(&mut X)
        #   (whatever the key: the result is a permutation of X)
        if is_p(t, ".") and toks[i + 1].kind == "id" and toks[i + 1].text in ("sort_unstable_by_key", "sort_by_key", "sort_unstable_by", "sort_by") and is_p(toks[i + 2], "("):
            k = match_close(toks, i + 2)
            s_ = _expr_start(out)
            recv = out[s_:]
            ws0 = recv[0].ws
            del out[s_:]
            au.note("R", f"X.{toks[i+1].text}(closure) -> vx_sort(&mut X)")
            out += _call("vx_sort", [[Tok("p", "&", ""), Tok("id", "mut", "")] + [_w(recv[0], " ")] + recv[1:]], ws0)
            i = k + 1
            continue
        # X.windows(N).position(|w| w == P)  ->  vx_windows_position(X, N, P)     (std: index of the first window of length N equal to P)
        if is_p(t, ".") and is_id(toks[i + 1], "windows") and is_p(toks[i + 2], "("):
            k1 = match_close(toks, i + 2)
            if is_p(toks[k1 + 1], ".") and is_id(toks[k1 + 2], "position") and is_p(toks[k1 + 3], "(") and is_p(toks[k1 + 4], "|") \
                    and toks[k1 + 5].kind == "id" and is_p(toks[k1 + 6], "|") and toks[k1 + 7].text == toks[k1 + 5].text and is_p(toks[k1 + 8], "=") and is_p(toks[k1 + 9], "="):
                k2 = match_close(toks, k1 + 3)
                s_ = _expr_start(out)
                recv = out[s_:]
                ws0 = recv[0].ws
                del out[s_:]
                au.note("R", "X.windows(N).position(|w| w == P) -> vx_windows_position(X, N, P)")
                out += _call("vx_windows_position", [[_w(recv[0], "")] + recv[1:], [x.copy() for x in toks[i + 3:k1]], [x.copy() for x in toks[k1 + 10:k2]]], ws0)
                i = k2 + 1
                continue
        # E.map(|p| B)  on an Option  ->  (match E { Some(p) => Some(B), None => None })      (recipe opt optmap=1: the receiver is an Option)
        if opts.get("optmap") and is_p(t, ".") and is_id(toks[i + 1], "map") and is_p(toks[i + 2], "(") and is_p(toks[i + 3], "|") and toks[i + 4].kind == "id" and is_p(toks[i + 5], "|"):
            k = match_close(toks, i + 2)
            s_ = _expr_start(out)
            recv = out[s_:]
            ws0 = recv[0].ws
            del out[s_:]
            au.note("R", "E.map(|p| B) on an Option -> match E { Some(p) => Some(B), None => None }")
            body_ = [x.copy() for x in toks[i + 6:k]]
            if body_:
                body_[0].ws = " "
            head = toks_of("(match")
            head[0].ws = ws0
            out += head + [_w(recv[0], " ")] + recv[1:] + toks_of(" { Some(" + toks[i + 4].text + ") => Some(") + body_ + toks_of("), None => None })")
            i = k + 1
            continue
        # X.is_some_and(|v| E)  ->  (match X { Some(v) => E, None => false })        X.is_none_or(|v| E) -> (match X { Some(v) => E, None => true })
        if is_p(t, ".") and toks[i + 1].kind == "id" and toks[i + 1].text in ("is_some_and", "is_none_or") and is_p(toks[i + 2], "(") and is_p(toks[i + 3], "|"):
            k = match_close(toks, i + 2)
            arg = toks[i + 3:k]
            try:
                bar2 = next(q for q in range(1, len(arg)) if is_p(arg[q], "|"))
            except StopIteration:
                bar2 = None
            if bar2 is not None and bar2 == 2 and arg[1].kind == "id":
                s_ = _expr_start(out)
                recv = out[s_:]
                ws0 = recv[0].ws
                del out[s_:]
                dflt = "false" if toks[i + 1].text == "is_some_and" else "true"
                au.note("R", f"X.{toks[i+1].text}(|v| E) -> match X {{ Some(v) => E, None => {dflt} }}")
                head = toks_of("(match")
                head[0].ws = ws0
                body_ = [x.copy() for x in arg[bar2 + 1:]]
                if body_:
                    body_[0].ws = " "
                out += head + [_w(recv[0], " ")] + recv[1:] + toks_of(" { Some(" + arg[1].text + ") =>") + body_ + toks_of(", None => " + dflt + " })")
                i = k + 1
                continue
        # IT.collect::<std::result::Result<Vec<_>, _>>()  ->  IT.vx_collect_results()
        #   (collecting an iterator of Results: Ok(all items in order) if every item is Ok, else the first Err)
        if is_p(toks[i], ".") and is_id(toks[i + 1], "collect") and texts(toks, i + 2, 3) == [":", ":", "<"]:
            pat = ["std", ":", ":", "result", ":", ":", "Result", "<", "Vec", "<", "_", ">", ",", "_", ">", ">", "(", ")"]
            pat2 = ["Result", "<", "Vec", "<", "_", ">", ",", "_", ">", ">", "(", ")"]
            for pp in (pat, pat2):
                if texts(toks, i + 5, len(pp)) == pp:
                    au.note("R", "IT.collect::<Result<Vec<_>, _>>() -> IT.vx_collect_results()")
                    out += [toks[i], Tok("id", "vx_collect_results", ""), Tok("p", "(", ""), Tok("p", ")", "")]
                    i += 5 + len(pp)
                    break
            else:
                out.append(toks[i])
                i += 1
            continue
        # X.to_vec()  ->  vx_slice_to_vec(X)
        if is_p(t, ".") and is_id(toks[i + 1], "to_vec") and texts(toks, i + 2, 2) == ["(", ")"]:
            s = _expr_start(out)
            recv = out[s:]
            ws0 = recv[0].ws
            del out[s:]
            au.note("R", "X.to_vec() -> vx_slice_to_vec(X)")
            if is_p(recv[-1], "]"):
                out += _call("vx_slice_to_vec", [[Tok("p", "&", "")] + [_w(recv[0], "")] + recv[1:]], ws0)
            else:
                out += _call("vx_slice_to_vec", [[_w(recv[0], "")] + recv[1:]], ws0)
            i += 4
            continue
        # X.as_bytes()  ->  vx_as_bytes(&X)
        if is_p(t, ".") and is_id(toks[i + 1], "as_bytes") and texts(toks, i + 2, 2) == ["(", ")"]:
            s = _expr_start(out)
            recv = out[s:]
            ws0 = recv[0].ws
            del out[s:]
            au.note("R", "X.as_bytes() -> vx_as_bytes(&X)")
            out += _call("vx_as_bytes", [[Tok("p", "&", "")] + [_w(recv[0], "")] + recv[1:]], ws0)
            i += 4
            continue
        # Bytes::from(E)  ->  Bytes::vx_from_vec(E)   (From<Vec<u8>> for Bytes)
        if is_id(t, "Bytes") and texts(toks, i + 1, 4) == [":", ":", "from", "("]:
            strs = set(filter(None, opts.get("bytes_from_string", "").split(",")))
            if toks[i + 5].text in strs:
                au.note("R", "Bytes::from(string) -> Bytes::vx_from_string(string)")
                out += [t, toks[i + 1], toks[i + 2], Tok("id", "vx_from_string", "")]
            else:
                au.note("R", "Bytes::from(vec) -> Bytes::vx_from_vec(vec)")
                out += [t, toks[i + 1], toks[i + 2], Tok("id", "vx_from_vec", "")]
            i += 4
            continue
        # BytesMut::from(E)  ->  BytesMut::vx_from_slice(E)   (From<&[u8]> for BytesMut)
        if is_id(t, "BytesMut") and texts(toks, i + 1, 4) == [":", ":", "from", "("]:
            au.note("R", "BytesMut::from(slice) -> BytesMut::vx_from_slice(slice)")
            out += [t, toks[i + 1], toks[i + 2], Tok("id", "vx_from_slice", "")]
            i += 4
            continue
        out.append(t)
        i += 1
    toks = out
    # const NAME: T = <expression that calls a function>;  at statement position inside a fn body  ->  let NAME: T = ...;
    # (Verus consts cannot call exec functions; same value, evaluated once.)  Consts without calls stay consts.  A const
    # may be used as a PATTERN, where a `let` name would become a catch-all binding: refused if NAME occurs before `=>` or `|`.
    from .extract import _stmt_pos
    depth = 0
    for q in range(len(toks)):
        if toks[q].kind == "p" and toks[q].text == "{":
            depth += 1
        elif toks[q].kind == "p" and toks[q].text == "}":
            depth -= 1
        elif is_id(toks[q], "const") and depth >= 1 and q + 2 < len(toks) and toks[q + 1].kind == "id" and is_p(toks[q + 2], ":") and _stmt_pos(toks[:q]) \
                and not is_id(toks[q + 1], "fn"):
            pre = [x.text for x in toks[:q]]
            if "fn" not in pre:
                continue
            e = q
            while not is_p(toks[e], ";"):
                e += 1
            has_call = any(is_p(toks[z], "(") and toks[z - 1].kind == "id" for z in range(q + 3, e))
            if not has_call:
                continue
            nm = toks[q + 1].text
            for z in range(e + 1, len(toks) - 2):
                if is_id(toks[z], nm) and not is_p(toks[z - 1], ".") and (
                        (is_p(toks[z + 1], "=") and is_p(toks[z + 2], ">")) or is_p(toks[z + 1], "|") and not is_p(toks[z + 2], "|")
                        or is_p(toks[z - 1], "|") and not is_p(toks[z - 2], "|")):
                    raise Undecided(f"inner const {nm} (initialised by a call) is used as a pattern")
            au.note("R", f"inner const {nm} (initialised by a call) -> let")
            toks[q] = Tok("id", "let", toks[q].ws)
    # Instant::now() <= X   ->  Instant::now().vx_le(&X)     (comparison on a shimmed clock type; recipe opt instant_le)
    if opts.get("instant_le"):
        while True:
            z = find_seq(toks, ["Instant", ":", ":", "now", "(", ")", "<", "="])
            if z < 0:
                break
            # operand: identifier chain a.b.c
            e = z + 8
            while e < len(toks) and (toks[e].kind == "id" or is_p(toks[e], ".")):
                e += 1
            operand = toks[z + 8:e]
            au.note("R", "Instant::now() <= X -> Instant::now().vx_le(&X)")
            toks[z + 6:e] = [Tok("p", ".", ""), Tok("id", "vx_le", ""), Tok("p", "(", ""), Tok("p", "&", "")] + [_w(x, "" if q == 0 else x.ws) for q, x in enumerate(operand)] + [Tok("p", ")", "")]
    # NAME > X   ->  NAME.vx_gt(&X)     (comparison operator on a shimmed Duration; recipe opt cmpgt=NAME)
    for nm in filter(None, opts.get("cmpgt", "").split(",")):
        while True:
            z = find_seq(toks, [nm, ">"])
            if z < 0 or is_p(toks[z + 2], "="):
                break
            e = z + 2
            while e < len(toks) and (toks[e].kind == "id" or is_p(toks[e], ".")):
                e += 1
            operand = toks[z + 2:e]
            au.note("R", f"{nm} > X -> {nm}.vx_gt(&X)")
            toks[z + 1:e] = [Tok("p", ".", ""), Tok("id", "vx_gt", ""), Tok("p", "(", ""), Tok("p", "&", "")] + [_w(x, "" if q == 0 else x.ws) for q, x in enumerate(operand)] + [Tok("p", ")", "")]
    # X.clone() on a (String, u16) pair named by the recipe:  pairclone=destination  ->  vx_clone_pair(&destination)
    for nm in filter(None, opts.get("pairclone", "").split(",")):
        while True:
            z = find_seq(toks, [nm, ".", "clone", "(", ")"])
            if z < 0:
                break
            au.note("R", f"{nm}.clone() (tuple) -> vx_clone_pair(&{nm})")
            ws = toks[z].ws
            toks[z:z + 5] = toks_of(f"vx_clone_pair(&{nm})")
            toks[z].ws = ws
    # integer to_string named by the recipe:  tostring=pkt  ->  `pkt.to_string()` becomes vx_int_to_string(pkt as u64)
    for nm in filter(None, opts.get("tostring", "").split(",")):
        while True:
            z = find_seq(toks, [nm, ".", "to_string", "(", ")"])
            if z < 0:
                break
            au.note("R", f"{nm}.to_string() (integer) -> vx_int_to_string({nm} as u64)")
            toks[z:z + 5] = toks_of(f"vx_int_to_string({nm} as u64)")
            toks[z].ws = " "
    # type-directed rewrites named by the recipe:  strne=a:b  ->  `a != b` becomes vx_string_ne_str(a, b)
    for spec in filter(None, opts.get("strne", "").split(",")):
        a, b = spec.split(":")
        while True:
            p = find_seq(toks, [a, "!", "=", b])
            if p < 0:
                break
            au.note("R", f"{a} != {b} (String vs &str) -> vx_string_ne_str({a}, {b})")
            toks[p:p + 4] = _call("vx_string_ne_str", [[Tok("id", a, "")], [Tok("id", b, "")]], toks[p].ws)
    return toks
