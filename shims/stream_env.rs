// ---- shim stream_env: what `impl Stream` refers to, after rule H (TRUSTED / HAND-WRITTEN) ----
pub use std::sync::atomic::Ordering;
pub use std::sync::Arc;
pub enum SEffect {
    Submit { chan: int, id: u32, data: Seq<u8> },    // (id, data) put on the session's outbound queue `chan`
    SynackSent { ok: bool },                          // the one-shot delivered this outcome to the opener
    SendFailed,                                       // the session's forwarding task is gone (session closing): the item was dropped
}
// an EMPTY chunk on the outbound queue is the end-of-data marker (Session::process_stream_data turns it into FIN)
pub open spec fn is_end_marker(e: SEffect) -> bool { e is Submit && e->Submit_data.len() == 0 }
pub open spec fn has_end_marker(fx: Seq<SEffect>) -> bool { exists|i: int| 0 <= i < fx.len() && is_end_marker(#[trigger] fx[i]) }
// nothing is queued behind the end marker: no data, no second marker
pub open spec fn end_marker_is_last(fx: Seq<SEffect>) -> bool {
    forall|i: int, j: int| 0 <= i < j < fx.len() && is_end_marker(#[trigger] fx[i]) ==> !((#[trigger] fx[j]) is Submit)
}
pub struct AtomicBool { pub v: bool }
impl AtomicBool {
    pub fn vx_new(v: bool) -> (r: Self) ensures r.v == v { AtomicBool { v } }
    pub fn load(&self, o: Ordering) -> (r: bool) ensures r == self.v { self.v }
    pub fn store(&mut self, x: bool, o: Ordering) ensures final(self).v == x { self.v = x; }
    pub fn swap(&mut self, x: bool, o: Ordering) -> (r: bool) ensures r == old(self).v, final(self).v == x { let r = self.v; self.v = x; r }
    #[verifier::external_body]
    pub fn compare_exchange(&mut self, cur: bool, new: bool, s: Ordering, f: Ordering) -> (r: std::result::Result<bool, bool>)
        ensures old(self).v == cur ==> r is Ok && final(self).v == new, old(self).v != cur ==> r is Err && final(self).v == old(self).v
    { unimplemented!() }
}
pub mod mpsc_send {
    use super::*;
    pub use mpsc::error;
    impl mpsc::UnboundedSender<(u32, Bytes)> {
        // Ok: the item is now on the queue (FIFO); Err: the receiving half is gone, nothing was queued
        #[verifier::external_body]
        pub fn send(&self, value: (u32, Bytes), fx: &mut Ghost<Seq<SEffect>>) -> (r: std::result::Result<(), error::SendError<(u32, Bytes)>>)
            ensures r is Ok ==> final(fx)@ == old(fx)@.push(SEffect::Submit { chan: self.chan(), id: value.0, data: value.1@ }),
                    r is Err ==> final(fx)@ == old(fx)@.push(SEffect::SendFailed)
        { unimplemented!() }
    }
}
pub mod oneshot {
    use super::*;
    #[verifier::external_body] #[verifier::reject_recursive_types(T)]
    pub struct Receiver<T> { t: std::marker::PhantomData<T> }
    #[verifier::external_body] #[verifier::reject_recursive_types(T)]
    pub struct Sender<T> { t: std::marker::PhantomData<T> }
    impl<T> Receiver<T> { pub uninterp spec fn chan(&self) -> int; }
    impl<T> Sender<T> { pub uninterp spec fn chan(&self) -> int; }
    impl Sender<Result<()>> {
        // consumes the sender: at most one value per one-shot by ownership
        #[verifier::external_body]
        pub fn send(self, v: Result<()>, fx: &mut Ghost<Seq<SEffect>>) -> (r: std::result::Result<(), Result<()>>)
            ensures final(fx)@ == old(fx)@.push(SEffect::SynackSent { ok: v is Ok })
        { unimplemented!() }
    }
    #[verifier::external_body]
    pub fn channel<T>() -> (r: (Sender<T>, Receiver<T>)) ensures r.0.chan() == r.1.chan() { unimplemented!() }
}
pub mod mpsc_paths { }
pub enum Poll<T> { Ready(T), Pending }
#[verifier::external_body]
pub struct Context<'a> { _p: std::marker::PhantomData<&'a ()> }
#[verifier::external_body]
pub struct StreamReader { _p: () }

pub struct StreamState {
    pub synack_tx: Option<oneshot::Sender<Result<()>>>,
    pub is_closed: AtomicBool,
    pub close_error: Option<AnyTlsError>,
    pub fin_sent: AtomicBool,
    pub fx: Ghost<Seq<SEffect>>,
}
impl StreamState {
    // history invariant of one stream's outbound side: the end marker, once queued, is the last thing queued, and the flag knows
    pub open spec fn wf(&self) -> bool { end_marker_is_last(self.fx@) && (has_end_marker(self.fx@) ==> self.fin_sent.v) }
}
pub struct ReaderCellS { pub _p: () }
pub struct Stream {
    pub id: u32,
    pub writer_tx: mpsc::UnboundedSender<(u32, Bytes)>,
    pub reader: Arc<ReaderCellS>,
}
// tokio::io::ReadBuf as poll_read's entry sees it
pub struct ReadBuf<'a> { pub _p: std::marker::PhantomData<&'a ()> }
impl<'a> ReadBuf<'a> { #[verifier::external_body] pub fn remaining(&self) -> (r: usize) { unimplemented!() } }
// how many outcomes the opener has been sent, and the first one
pub open spec fn n_synack(fx: Seq<SEffect>) -> nat decreases fx.len()
{ if fx.len() == 0 { 0 } else { n_synack(fx.drop_last()) + (if fx.last() is SynackSent { 1nat } else { 0nat }) } }
pub broadcast proof fn lemma_n_synack_push(fx: Seq<SEffect>, e: SEffect)
    ensures #[trigger] n_synack(fx.push(e)) == n_synack(fx) + (if e is SynackSent { 1nat } else { 0nat })
{ assert(fx.push(e).drop_last() =~= fx); assert(fx.push(e).last() == e); }

// tokio::io::AsyncRead: only the entry block of poll_read is under contract (the rest polls a boxed future)
pub trait AsyncRead { fn vx_block_poll_read_entry(&self, buf: &mut ReadBuf<'_>, ss: &mut StreamState) -> Poll<io::Result<()>>; }
// tokio::io::AsyncWrite with the signatures rule R/H produce (Pin<&mut Self> -> &mut self, hoisted state appended)
pub trait AsyncWrite {
    fn poll_write(&mut self, _cx: &mut Context<'_>, buf: &[u8], ss: &mut StreamState) -> Poll<io::Result<usize>> requires old(ss).wf();
    fn poll_flush(&mut self, _cx: &mut Context<'_>, ss: &mut StreamState) -> Poll<io::Result<()>>;
    fn poll_shutdown(&mut self, _cx: &mut Context<'_>, ss: &mut StreamState) -> Poll<io::Result<()>> requires old(ss).wf();
}
