// ---- shim socks5_env ----
// ---- the client object as the front-ends see it (opaque): create_proxy_stream either establishes a tunnel to exactly
// the destination it was given or fails.  Its own body is unit `client` (address encoding + verdict wait).
pub ghost struct TunnelEv { pub host: Seq<char>, pub port: u16 }
pub struct ProxyStream { pub id: u32, pub ghost dest_host: Seq<char>, pub ghost dest_port: u16 }
impl ProxyStream { pub fn id(&self) -> (r: u32) ensures r == self.id { self.id } }
pub struct ProxySession { pub _p: () }
impl ProxySession { #[verifier::external_body] pub fn is_closed(&self) -> bool { unimplemented!() } }
pub struct Client { pub _p: () }
impl Client {
    // fx: ghost log of tunnels established by this front-end connection
    #[verifier::external_body]
    pub fn create_proxy_stream(&self, destination: (String, u16), fx: &mut Ghost<Seq<TunnelEv>>) -> (r: Result<(Arc<ProxyStream>, Arc<ProxySession>)>)
        ensures r is Ok ==> r->Ok_0.0.dest_host == destination.0@ && r->Ok_0.0.dest_port == destination.1
                    && final(fx)@ == old(fx)@.push(TunnelEv { host: destination.0@, port: destination.1 }),
                r is Err ==> final(fx)@ == old(fx)@
    { unimplemented!() }
}
pub use std::sync::Arc;
impl Clone for Socks5Addr { #[verifier::external_body] fn clone(&self) -> (r: Self) ensures r == *self { unimplemented!() } }
