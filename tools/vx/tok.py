"""Rust tokenizer used by the extractor.  Comments are kept as leading whitespace of the
next token, so rendering an unedited token list reproduces the source text byte for byte."""
import re


class Tok:
    __slots__ = ("kind", "text", "ws", "line")

    def __init__(self, kind, text, ws="", line=0):
        self.kind, self.text, self.ws, self.line = kind, text, ws, line

    def __repr__(self):
        return f"{self.kind}:{self.text!r}"

    def copy(self):
        return Tok(self.kind, self.text, self.ws, self.line)


IDENT = re.compile(r"[A-Za-z_][A-Za-z0-9_]*")
NUM = re.compile(r"[0-9][0-9A-Za-z_]*(\.[0-9][0-9A-Za-z_]*)?")
RAWSTR = re.compile(r"b?r(#*)\"")
CHARLIT = re.compile(r"b?'(\\x[0-9a-fA-F]{2}|\\u\{[0-9a-fA-F]+\}|\\.|[^\\'])'")
LIFETIME = re.compile(r"'[A-Za-z_][A-Za-z0-9_]*")


class TokenizeError(Exception):
    pass


def tokenize(src, keep_comments=True):
    toks, i, n = [], 0, len(src)
    ws = ""
    line = 1
    while i < n:
        c = src[i]
        if c.isspace():
            j = i
            while j < n and src[j].isspace():
                j += 1
            ws += src[i:j]
            line += src.count("\n", i, j)
            i = j
            continue
        if src.startswith("//", i):
            j = src.find("\n", i)
            j = n if j < 0 else j
            if keep_comments:
                ws += src[i:j]
            i = j
            continue
        if src.startswith("/*", i):
            depth, j = 1, i + 2
            while j < n and depth:
                if src.startswith("/*", j):
                    depth += 1
                    j += 2
                elif src.startswith("*/", j):
                    depth -= 1
                    j += 2
                else:
                    j += 1
            if keep_comments:
                ws += src[i:j]
            line += src.count("\n", i, j)
            i = j
            continue
        m = RAWSTR.match(src, i)
        if m:
            hashes = m.group(1)
            end = src.find('"' + hashes, m.end())
            if end < 0:
                raise TokenizeError("unterminated raw string")
            j = end + 1 + len(hashes)
            toks.append(Tok("str", src[i:j], ws, line))
            line += src.count("\n", i, j)
            ws = ""
            i = j
            continue
        if c == '"' or (c == "b" and i + 1 < n and src[i + 1] == '"'):
            j = i + (2 if c == "b" else 1)
            while j < n and src[j] != '"':
                j += 2 if src[j] == "\\" else 1
            if j >= n:
                raise TokenizeError("unterminated string")
            j += 1
            toks.append(Tok("str", src[i:j], ws, line))
            line += src.count("\n", i, j)
            ws = ""
            i = j
            continue
        if c == "'" or (c == "b" and i + 1 < n and src[i + 1] == "'"):
            m = CHARLIT.match(src, i)
            if m:
                toks.append(Tok("char", m.group(0), ws, line))
                ws = ""
                i = m.end()
                continue
            m = LIFETIME.match(src, i)
            if m:
                toks.append(Tok("life", m.group(0), ws, line))
                ws = ""
                i = m.end()
                continue
        m = IDENT.match(src, i)
        if m:
            toks.append(Tok("id", m.group(0), ws, line))
            ws = ""
            i = m.end()
            continue
        m = NUM.match(src, i)
        if m:
            # do not swallow `0..n` or `1.max(…)`
            toks.append(Tok("num", m.group(0), ws, line))
            ws = ""
            i = m.end()
            continue
        toks.append(Tok("p", c, ws, line))
        ws = ""
        i += 1
    return toks, ws


def render(toks):
    return "".join(t.ws + t.text for t in toks)


OPEN = {"(": ")", "[": "]", "{": "}"}
CLOSE = {v: k for k, v in OPEN.items()}


def match_close(toks, i):
    """toks[i] is an opening delimiter; index of its closer."""
    depth = 0
    for j in range(i, len(toks)):
        t = toks[j]
        if t.kind == "p":
            if t.text in OPEN:
                depth += 1
            elif t.text in CLOSE:
                depth -= 1
                if depth == 0:
                    return j
    raise ValueError("unbalanced delimiters")


def match_open(toks, i):
    """toks[i] is a closing delimiter; index of its opener."""
    depth = 0
    for j in range(i, -1, -1):
        t = toks[j]
        if t.kind == "p":
            if t.text in CLOSE:
                depth += 1
            elif t.text in OPEN:
                depth -= 1
                if depth == 0:
                    return j
    raise ValueError("unbalanced delimiters")


def texts(toks, i, k):
    return [t.text for t in toks[i:i + k]]


def is_p(t, s):
    return t.kind == "p" and t.text == s


def is_id(t, s=None):
    return t.kind == "id" and (s is None or t.text == s)


def toks_of(text):
    t, _ = tokenize(text)
    return t


def find_seq(toks, pat, start=0, end=None):
    """index of first occurrence of token-text sequence pat (list of str) in toks[start:end], or -1"""
    end = len(toks) if end is None else end
    k = len(pat)
    if k == 0:
        return -1
    first = pat[0]
    for i in range(start, end - k + 1):
        if toks[i].text == first and all(toks[i + d].text == pat[d] for d in range(1, k)):
            return i
    return -1


def find_all_seq(toks, pat, start=0, end=None):
    res, i = [], start
    while True:
        i = find_seq(toks, pat, i, end)
        if i < 0:
            return res
        res.append(i)
        i += 1
