// ---- shim clientsess_env: Client::create_new_session's session construction (TRUSTED) ----
pub use std::sync::Arc;
pub struct PaddingFactory { pub ghost raw: Seq<u8> }
pub struct DefaultCell { pub v: Arc<PaddingFactory> }       // the process-wide default scheme (PaddingFactory::default())
pub struct Duration { pub s: u64 }
impl Clone for Duration { fn clone(&self) -> (r: Self) ensures r == *self { Duration { s: self.s } } }
impl Copy for Duration {}
pub struct SessionPoolConfig { pub check_interval: Duration, pub idle_timeout: Duration, pub min_idle_sessions: usize }
pub struct SessionHeartbeatConfig { pub interval: Duration, pub timeout: Duration }
pub struct Client { pub password_hash: [u8; 32], pub padding: Arc<PaddingFactory>, pub pool_config: SessionPoolConfig }
pub struct RdHalf; pub struct WrHalf { pub ghost preamble_scheme: Option<Seq<u8>> }
#[verifier::external_body]
pub fn send_authentication(w: &mut WrHalf, h: &[u8; 32], p: &Arc<PaddingFactory>) -> (r: Result<()>)
    ensures r is Ok ==> final(w).preamble_scheme == Some(p.raw)
{ unimplemented!() }
pub struct Session { pub ghost scheme: Seq<u8>, pub ghost hb: Option<(u64, u64)> }
impl Session {
    #[verifier::external_body]
    pub fn new_client(r: RdHalf, w: WrHalf, padding: Arc<PaddingFactory>, hb: Option<SessionHeartbeatConfig>) -> (s: Session)
        ensures s.scheme == padding.raw, s.hb == (match hb { Some(c) => Some((c.interval.s, c.timeout.s)), None => None::<(u64, u64)> })
    { unimplemented!() }
}
