// ---- shim udp_env: std::net::SocketAddr as the UDP code uses it, module paths (TRUSTED) ----
pub mod session { pub use super::StreamReader; pub use super::Stream; }
#[derive(Clone, Copy)]
pub struct SocketAddrV4 { pub ip: Ipv4Addr, pub port: u16 }
#[derive(Clone, Copy)]
pub struct SocketAddrV6 { pub ip: Ipv6Addr, pub port: u16 }
impl SocketAddrV4 { pub fn ip(&self) -> (r: &Ipv4Addr) ensures *r == self.ip { &self.ip } pub fn port(&self) -> (r: u16) ensures r == self.port { self.port } }
impl SocketAddrV6 { pub fn ip(&self) -> (r: &Ipv6Addr) ensures *r == self.ip { &self.ip } pub fn port(&self) -> (r: u16) ensures r == self.port { self.port } }
#[derive(Clone, Copy)]
pub enum SocketAddr { V4(SocketAddrV4), V6(SocketAddrV6) }
impl From<(Ipv4Addr, u16)> for SocketAddr {
    fn from(t: (Ipv4Addr, u16)) -> (r: SocketAddr) ensures r == SocketAddr::V4(SocketAddrV4 { ip: t.0, port: t.1 }) { SocketAddr::V4(SocketAddrV4 { ip: t.0, port: t.1 }) }
}
impl vstd::std_specs::convert::FromSpecImpl<(Ipv4Addr, u16)> for SocketAddr {
    open spec fn obeys_from_spec() -> bool { true }
    open spec fn from_spec(t: (Ipv4Addr, u16)) -> SocketAddr { SocketAddr::V4(SocketAddrV4 { ip: t.0, port: t.1 }) }
}
impl From<(Ipv6Addr, u16)> for SocketAddr {
    fn from(t: (Ipv6Addr, u16)) -> (r: SocketAddr) ensures r == SocketAddr::V6(SocketAddrV6 { ip: t.0, port: t.1 }) { SocketAddr::V6(SocketAddrV6 { ip: t.0, port: t.1 }) }
}
impl vstd::std_specs::convert::FromSpecImpl<(Ipv6Addr, u16)> for SocketAddr {
    open spec fn obeys_from_spec() -> bool { true }
    open spec fn from_spec(t: (Ipv6Addr, u16)) -> SocketAddr { SocketAddr::V6(SocketAddrV6 { ip: t.0, port: t.1 }) }
}
pub mod std_net_paths { }
// the resolver as the UDP request parser sees it (opaque; unit `dns_cache` has its contract)
#[verifier::external_body]
pub fn resolve_host_with_cache(host: &String, port: u16) -> (r: Result<SocketAddr>)
    ensures r is Ok ==> (match r->Ok_0 { SocketAddr::V4(a) => a.port == port, SocketAddr::V6(a) => a.port == port })
{ unimplemented!() }

// ---- the UDP socket and the stream's sending side for the server's UDP -> Stream loop ----
// incoming: PROPHECY of the datagrams the socket will deliver before it fails; recv_from truncates to the buffer (OS semantics)
// from: PROPHECY of the source address of each incoming datagram (same length as incoming);  out: datagrams handed to send_to
pub struct UdpLog { pub ghost incoming: Seq<Seq<u8>>, pub ghost from: Seq<int>, pub ghost sent: Seq<u8>, pub ghost n_sent: nat, pub ghost out: Seq<(Seq<u8>, int)> }
// socket addresses are compared through an opaque identity
pub struct UdpSocket { pub _p: () }
impl UdpSocket {
    #[verifier::external_body]
    pub fn recv_from(&self, buf: &mut [u8], fx: &mut Ghost<UdpLog>) -> (r: io::Result<(usize, SocketAddr)>)
        ensures final(buf)@.len() == old(buf)@.len(), final(fx)@.sent == old(fx)@.sent, final(fx)@.n_sent == old(fx)@.n_sent, final(fx)@.out == old(fx)@.out,
            old(fx)@.incoming.len() == 0 ==> r is Err && final(fx)@.incoming == old(fx)@.incoming && final(fx)@.from == old(fx)@.from,
            old(fx)@.incoming.len() > 0 ==> r is Ok && final(fx)@.incoming == old(fx)@.incoming.drop_first()
                && (old(fx)@.from.len() > 0 ==> final(fx)@.from == old(fx)@.from.drop_first() && sockaddr_id(r->Ok_0.1) == old(fx)@.from[0])
                && r->Ok_0.0 == (if old(fx)@.incoming[0].len() <= old(buf)@.len() { old(fx)@.incoming[0].len() } else { old(buf)@.len() })
                && final(buf)@.subrange(0, r->Ok_0.0 as int) == old(fx)@.incoming[0].subrange(0, r->Ok_0.0 as int),
    { unimplemented!() }
}
impl UdpSocket {
    // one datagram with exactly these bytes to exactly this address (Ok(n): n bytes were accepted; UDP sends whole datagrams)
    #[verifier::external_body]
    pub fn send_to<A: VxAddr>(&self, buf: &[u8], addr: A, fx: &mut Ghost<UdpLog>) -> (r: io::Result<usize>)
        ensures final(fx)@.incoming == old(fx)@.incoming, final(fx)@.from == old(fx)@.from, final(fx)@.sent == old(fx)@.sent, final(fx)@.n_sent == old(fx)@.n_sent,
            r is Ok ==> final(fx)@.out == old(fx)@.out.push((buf@, addr.aid())),
            r is Err ==> final(fx)@.out == old(fx)@.out
    { unimplemented!() }
}
// what send_to accepts as a destination: an opaque identity
pub trait VxAddr { spec fn aid(&self) -> int; }
pub uninterp spec fn sockaddr_id(a: SocketAddr) -> int;
impl VxAddr for SocketAddr { open spec fn aid(&self) -> int { sockaddr_id(*self) } }
impl VxAddr for &SocketAddr { open spec fn aid(&self) -> int { sockaddr_id(**self) } }
pub struct SendErr;
pub struct Stream { pub id: u32 }
impl Stream {
    pub fn id(&self) -> (r: u32) ensures r == self.id { self.id }
    pub fn reader(&self) -> () { () }
    #[verifier::external_body]
    pub fn send_data(&self, data: Bytes, fx: &mut Ghost<UdpLog>) -> (r: std::result::Result<(), SendErr>)
        ensures final(fx)@.incoming == old(fx)@.incoming, final(fx)@.from == old(fx)@.from, final(fx)@.out == old(fx)@.out,
            r is Ok ==> final(fx)@.sent == old(fx)@.sent + data@ && final(fx)@.n_sent == old(fx)@.n_sent + 1,
            r is Err ==> final(fx)@.sent == old(fx)@.sent && final(fx)@.n_sent == old(fx)@.n_sent
    { unimplemented!() }
}
pub struct AtomicU64 { pub v: u64 }
pub use std::sync::Arc;
