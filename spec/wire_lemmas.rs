// ---- spec wire_lemmas: composition lemmas over the contracts of encode/decode (C03, C01) ----
pub proof fn lemma_cmd_roundtrip(c: Command) ensures cmd_of(cmd_byte(c)) == c {}
pub proof fn lemma_cmd_total(b: u8) ensures b <= 10 ==> cmd_byte(cmd_of(b)) == b, b > 10 ==> cmd_of(b) == Command::Waste {}

// encode then decode: same command, id, payload, and exactly the frame's bytes are consumed
pub proof fn lemma_roundtrip(f: FrameS, r: Seq<u8>)
    requires f.data.len() <= 65535
    ensures step(wire(f) + r) == Some((f, r))
{
    let s = wire(f) + r;
    lemma_be16(f.data.len() as u16); lemma_be32(f.stream_id); lemma_cmd_roundtrip(f.cmd);
    assert(s.subrange(5, 7) =~= be16(f.data.len() as u16));
    assert(s.subrange(1, 5) =~= be32(f.stream_id));
    assert(s[0] == cmd_byte(f.cmd));
    let n = f.data.len() as int;
    assert(s.subrange(7, 7 + n) =~= f.data);
    assert(s.subrange(7 + n, s.len() as int) =~= r);
}

pub proof fn lemma_prefix(a: Seq<u8>, b: Seq<u8>)
    requires step(a) is Some
    ensures step(a + b) == Some((step(a)->Some_0.0, step(a)->Some_0.1 + b))
{
    let s = a + b; let n = de16(a.subrange(5, 7)) as int;
    assert(s.subrange(5, 7) =~= a.subrange(5, 7));
    assert(s.subrange(1, 5) =~= a.subrange(1, 5));
    assert(s.subrange(7, 7 + n) =~= a.subrange(7, 7 + n));
    assert(s.subrange(7 + n, s.len() as int) =~= a.subrange(7 + n, a.len() as int) + b);
}

// chunking independence: decoding a, keeping the remainder, appending b and decoding again
// yields exactly what decoding a+b in one go yields
pub proof fn lemma_chunking(a: Seq<u8>, b: Seq<u8>)
    ensures ({ let pa = parse(a); let pb = parse(pa.1 + b); parse(a + b) == (pa.0 + pb.0, pb.1) })
    decreases a.len()
{
    match step(a) {
        None => {
            assert(parse(a) == (Seq::<FrameS>::empty(), a));
            assert(Seq::<FrameS>::empty() + parse(a + b).0 =~= parse(a + b).0);
        }
        Some((f, r)) => {
            lemma_prefix(a, b);
            lemma_chunking(r, b);
            let pa = parse(a); let pr = parse(r); let pb = parse(pr.1 + b);
            assert(pa == (seq![f] + pr.0, pr.1));
            assert(parse(a + b) == (seq![f] + parse(r + b).0, parse(r + b).1));
            assert(seq![f] + (pr.0 + pb.0) =~= (seq![f] + pr.0) + pb.0);
        }
    }
}

// any number of pieces: feeding pieces one by one == feeding the concatenation
pub open spec fn feed(pieces: Seq<Seq<u8>>, rest: Seq<u8>) -> (Seq<FrameS>, Seq<u8>) decreases pieces.len()
{
    if pieces.len() == 0 { (Seq::empty(), rest) }
    else { let p = parse(rest + pieces[0]); let q = feed(pieces.drop_first(), p.1); (p.0 + q.0, q.1) }
}
pub proof fn lemma_parse_idem(s: Seq<u8>) ensures parse(parse(s).1) == (Seq::<FrameS>::empty(), parse(s).1) decreases s.len()
{ match step(s) { None => {}, Some((f, r)) => { lemma_parse_idem(r); } } }

pub proof fn lemma_fragmentation(pieces: Seq<Seq<u8>>, rest: Seq<u8>)
    requires parse(rest).0.len() == 0
    ensures feed(pieces, rest) == parse(rest + pieces.flatten())
    decreases pieces.len()
{
    reveal_with_fuel(Seq::flatten, 2);
    if pieces.len() == 0 {
        assert(pieces.flatten() =~= Seq::<u8>::empty()) by { reveal_with_fuel(Seq::flatten, 2); }
        assert(rest + pieces.flatten() =~= rest);
        assert(parse(rest).1 == rest) by { if step(rest) is Some { } }
    } else {
        let p = parse(rest + pieces[0]);
        lemma_parse_idem(rest + pieces[0]);
        lemma_fragmentation(pieces.drop_first(), p.1);
        lemma_chunking(rest + pieces[0], pieces.drop_first().flatten());
        assert(pieces.flatten() =~= pieces[0] + pieces.drop_first().flatten());
        assert(rest + pieces.flatten() =~= (rest + pieces[0]) + pieces.drop_first().flatten());
    }
}

// every byte string is decodable without failure: step/parse are total, and what parse leaves
// over is strictly an incomplete frame
pub proof fn lemma_parse_total(s: Seq<u8>)
    ensures step(parse(s).1) is None, parse(s).1.len() <= s.len()
    decreases s.len()
{ match step(s) { None => {}, Some((f, r)) => { lemma_parse_total(r); } } }

// a concatenation of encoded frames parses to exactly those frames
pub open spec fn wire_all(fs: Seq<FrameS>) -> Seq<u8> decreases fs.len()
{ if fs.len() == 0 { Seq::empty() } else { wire(fs[0]) + wire_all(fs.drop_first()) } }
pub open spec fn frames_ok(fs: Seq<FrameS>) -> bool { forall|i: int| 0 <= i < fs.len() ==> (#[trigger] fs[i]).data.len() <= 65535 }

#[verifier::spinoff_prover]
#[verifier::rlimit(80)]
pub proof fn lemma_parse_wire_all(fs: Seq<FrameS>, r: Seq<u8>)
    requires frames_ok(fs)
    ensures parse(wire_all(fs) + r) == (fs + parse(r).0, parse(r).1)
    decreases fs.len()
{
    if fs.len() == 0 {
        assert(wire_all(fs) + r =~= r);
        assert(fs + parse(r).0 =~= parse(r).0);
    } else {
        let f = fs[0]; let tl = fs.drop_first();
        assert(frames_ok(tl)) by { assert forall|i: int| 0 <= i < tl.len() implies (#[trigger] tl[i]).data.len() <= 65535 by { assert(tl[i] == fs[i + 1]); } }
        lemma_parse_wire_all(tl, r);
        assert(wire_all(fs) + r =~= wire(f) + (wire_all(tl) + r));
        lemma_roundtrip(f, wire_all(tl) + r);
        assert(seq![f] + (tl + parse(r).0) =~= fs + parse(r).0);
    }
}
