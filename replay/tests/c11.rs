//! F-C11-a  session_write.write_frame.pending_frames_are_taken_from_the_buffer_under_the_writer_lock
//! Two tasks use one brand-new client session. Task A's first unbuffered write takes the pending frames (Settings, SYN_A)
//! out of the buffer and is then descheduled before it takes the writer lock (the verif-hooks scheduling point; on a
//! multi-threaded runtime this is an ordinary pre-emption). Task B opens a stream meanwhile: its SYN reaches the wire
//! BEFORE the client's Settings frame. Fixed (7a0a732) by holding the buffer lock until the frame has been written.
use anytls_rs::padding::PaddingFactory;
use anytls_rs::protocol::{Command, FrameCodec};
use anytls_rs::session::Session;
use std::sync::Arc;
use std::time::Duration;
use tokio_util::codec::Decoder;

fn pf() -> Arc<PaddingFactory> { Arc::new(PaddingFactory::new(anytls_rs::padding::DEFAULT_PADDING_SCHEME.as_bytes()).unwrap()) }

#[tokio::test(flavor = "current_thread")]
async fn f_c11_a_settings_frame_is_first_whatever_the_interleaving() {
    let (a, b) = tokio::io::duplex(1 << 20);
    let (ar, aw) = tokio::io::split(a);
    let (mut br, _bw) = tokio::io::split(b);
    let s = Arc::new(Session::new_client(ar, aw, pf(), None));
    s.clone().start_client().await.unwrap();                       // Settings is buffered
    let sa = s.clone();
    let task_a = async move {
        let (st, _rx) = sa.open_stream().await.unwrap();           // SYN_A buffered behind Settings
        sa.disable_buffering();
        anytls_rs::session::session::verif_hooks::WRITE_FRAME_PAUSES.store(1, std::sync::atomic::Ordering::SeqCst);   // deschedule the next unbuffered write once
        sa.write_data_frame(st.id(), bytes::Bytes::from_static(b"destination-A")).await.unwrap();   // takes [Settings, SYN_A], yields, then writes
    };
    let sb = s.clone();
    let task_b = async move {
        let _ = sb.open_stream().await.unwrap();                   // buffering is off, buffer is empty: SYN_B goes straight to the wire
    };
    tokio::join!(task_a, task_b);
    tokio::time::sleep(Duration::from_millis(100)).await;
    let mut buf = bytes::BytesMut::new();
    let mut tmp = vec![0u8; 65536];
    loop {
        match tokio::time::timeout(Duration::from_millis(200), tokio::io::AsyncReadExt::read(&mut br, &mut tmp)).await { Ok(Ok(n)) if n > 0 => buf.extend_from_slice(&tmp[..n]), _ => break }
    }
    let mut c = FrameCodec;
    let mut order = Vec::new();
    while let Some(f) = c.decode(&mut buf).unwrap() { if f.cmd != Command::Waste { order.push((f.cmd, f.stream_id)); } }
    assert!(!order.is_empty(), "nothing reached the wire");
    assert_eq!(order[0].0, Command::Settings, "the first frame on the wire is {:?}, not the client's Settings frame (wire order: {:?})", order[0], order);
}
