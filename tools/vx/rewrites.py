"""Further idiom rewrites of class R (DESIGN.md 2.2), each a 1:1 replacement by a shim call
whose contract states the documented behaviour of the replaced idiom.  Kept in a table so
that the list is closed and auditable."""
from .tok import Tok, match_close, texts, is_p, is_id, toks_of, find_seq, OPEN, CLOSE
from .extract import Undecided


def apply(toks, au, opts):
    return toks
