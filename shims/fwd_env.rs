// ---- shim fwd_env: the two halves of the outbound TCP connection and the stream's sending side, for the forwarding loops (TRUSTED) ----
pub use std::sync::Arc;
pub struct Stream { pub id: u32 }
impl Stream { pub fn id(&self) -> (r: u32) ensures r == self.id { self.id } pub fn reader(&self) -> () { () } }
// write half: history of accepted bytes; `failed` = some write_all returned Err (a prefix of that buffer may be on the wire)
// `shut` = the write direction has been shut down (the other endpoint sees end of stream after everything written before)
pub struct WriteHalf { pub ghost written: Seq<u8>, pub ghost failed: bool, pub ghost shut: bool }
impl WriteHalf {
    // end of stream goes to the endpoint after, and only after, everything written: nothing is written once the half is shut down
    #[verifier::external_body]
    pub fn shutdown(&mut self) -> (r: io::Result<()>)
        ensures final(self).shut, final(self).written == old(self).written, final(self).failed == old(self).failed
    { unimplemented!() }
    #[verifier::external_body]
    pub fn write_all(&mut self, buf: &[u8]) -> (r: io::Result<()>)
        requires !old(self).shut,
        ensures final(self).shut == old(self).shut,
            r is Ok ==> final(self).written == old(self).written + buf@ && final(self).failed == old(self).failed,
            r is Err ==> final(self).failed && exists|k: int| 0 <= k < buf@.len() + 1 && #[trigger] buf@.subrange(0, k) == buf@.subrange(0, k) && final(self).written == old(self).written + buf@.subrange(0, k),
    { unimplemented!() }
}
// read half: prophecy of everything the target will send before EOF / error
pub struct ReadHalf { pub ghost avail: Seq<u8> }
impl ReadHalf {
    #[verifier::external_body]
    pub fn read(&mut self, buf: &mut [u8]) -> (r: io::Result<usize>)
        ensures final(buf)@.len() == old(buf)@.len(),
            r is Ok ==> r->Ok_0 <= old(buf)@.len() && r->Ok_0 <= old(self).avail.len()
                 && final(buf)@.subrange(0, r->Ok_0 as int) == old(self).avail.subrange(0, r->Ok_0 as int)
                 && final(self).avail == old(self).avail.subrange(r->Ok_0 as int, old(self).avail.len() as int),
            (r is Ok && r->Ok_0 == 0 && old(buf)@.len() > 0) ==> old(self).avail.len() == 0,
            r is Err ==> old(self).avail.len() == 0 && final(self).avail == old(self).avail,
    { unimplemented!() }
}
// the stream's sending side as the forwarder sees it
// fin = the end of this direction's data has been announced to the peer; after_fin = something was submitted after that
pub struct FwdLog { pub ghost sent: Seq<u8>, pub ghost failed: bool, pub ghost fin: bool, pub ghost misrouted: bool, pub ghost after_fin: bool }
pub struct SendError;
pub struct StreamW { pub id: u32 }
impl StreamW {
    #[verifier::external_body]
    pub fn send_data(&self, data: Bytes, fx: &mut Ghost<FwdLog>) -> (r: std::result::Result<(), SendError>)
        ensures final(fx)@.fin == old(fx)@.fin && final(fx)@.misrouted == old(fx)@.misrouted && final(fx)@.after_fin == (old(fx)@.after_fin || old(fx)@.fin),
                r is Ok ==> final(fx)@.sent == old(fx)@.sent + data@ && final(fx)@.failed == old(fx)@.failed,
                r is Err ==> final(fx)@.sent == old(fx)@.sent && final(fx)@.failed
    { unimplemented!() }
    // Stream::send_fin (proved in group `stream`): the end marker is queued behind everything submitted before
    #[verifier::external_body]
    pub fn send_fin(&self, fx: &mut Ghost<FwdLog>)
        ensures final(fx)@.fin, final(fx)@.sent == old(fx)@.sent, final(fx)@.failed == old(fx)@.failed, final(fx)@.misrouted == old(fx)@.misrouted, final(fx)@.after_fin == old(fx)@.after_fin
    { }
}

// the session's sending side as the client-side forwarders see it: data submitted for stream `sid` extends `sent`;
// data submitted under any other id sets `misrouted`; the only control frame a forwarder may send is FIN of its own stream
pub struct SessionW { pub ghost sid: u32 }
impl SessionW {
    #[verifier::external_body]
    pub fn write_data_frame(&self, stream_id: u32, data: Bytes, fx: &mut Ghost<FwdLog>) -> (r: std::result::Result<(), SendError>)
        ensures final(fx)@.fin == old(fx)@.fin, final(fx)@.after_fin == (old(fx)@.after_fin || old(fx)@.fin),
                r is Ok ==> final(fx)@.failed == old(fx)@.failed
                    && (stream_id == self.sid ==> final(fx)@.sent == old(fx)@.sent + data@ && final(fx)@.misrouted == old(fx)@.misrouted)
                    && (stream_id != self.sid ==> final(fx)@.sent == old(fx)@.sent && final(fx)@.misrouted),
                r is Err ==> final(fx)@.sent == old(fx)@.sent && final(fx)@.failed && final(fx)@.misrouted == old(fx)@.misrouted
    { unimplemented!() }
    #[verifier::external_body]
    pub fn write_control_frame(&self, frame: Frame, fx: &mut Ghost<FwdLog>) -> (r: std::result::Result<(), SendError>)
        ensures final(fx)@.sent == old(fx)@.sent, final(fx)@.after_fin == old(fx)@.after_fin,
                final(fx)@.failed == (old(fx)@.failed || r is Err),
                (frame.cmd == Command::Fin && frame.stream_id == self.sid) ==> final(fx)@.fin && final(fx)@.misrouted == old(fx)@.misrouted,
                !(frame.cmd == Command::Fin && frame.stream_id == self.sid) ==> final(fx)@.fin == old(fx)@.fin && final(fx)@.misrouted
    { unimplemented!() }
}
// a scheduling point: no effect on any state the contracts talk about
pub mod tokio { pub mod task { pub fn yield_now() {} } }

// the two relay tasks as the function that spawned them sees them
pub struct AbortHandle { pub ghost which: int }
pub struct JoinHandle { pub ghost which: int }
// released = sessions handed back to the pool; awaited_at_release = which tasks had been awaited to completion when that happened
pub struct JoinLog { pub ghost awaited: Set<int>, pub ghost aborted: Set<int>, pub ghost released: Set<int>, pub ghost awaited_at_release: Set<int> }
// the client as the end of a front-end request sees it (Client::release_session is under contract in group `pool`)
pub struct ClientW { pub _p: () }
impl ClientW {
    #[verifier::external_body]
    pub fn release_session(&self, session: Arc<SessionW>, jl: &mut Ghost<JoinLog>)
        ensures final(jl)@.released == old(jl)@.released.insert(session.sid as int), final(jl)@.awaited_at_release == old(jl)@.awaited,
            final(jl)@.awaited == old(jl)@.awaited, final(jl)@.aborted == old(jl)@.aborted
    { }
}
impl JoinHandle {
    #[verifier::external_body] pub fn abort_handle(&self) -> (r: AbortHandle) ensures r.which == self.which { unimplemented!() }
    #[verifier::external_body] pub fn abort(&self, jl: &mut Ghost<JoinLog>) ensures final(jl)@.aborted == old(jl)@.aborted.insert(self.which), final(jl)@.awaited == old(jl)@.awaited, final(jl)@.released == old(jl)@.released, final(jl)@.awaited_at_release == old(jl)@.awaited_at_release { }
}
impl AbortHandle {
    #[verifier::external_body] pub fn abort(&self, jl: &mut Ghost<JoinLog>) ensures final(jl)@.aborted == old(jl)@.aborted.insert(self.which), final(jl)@.awaited == old(jl)@.awaited, final(jl)@.released == old(jl)@.released, final(jl)@.awaited_at_release == old(jl)@.awaited_at_release { }
}
pub struct JoinRes;
// tokio::join!(a, b): both run to completion
#[verifier::external_body]
pub fn vx_join2(a: JoinHandle, b: JoinHandle, jl: &mut Ghost<JoinLog>) -> (r: (JoinRes, JoinRes))
    ensures final(jl)@.awaited == old(jl)@.awaited.insert(a.which).insert(b.which), final(jl)@.aborted == old(jl)@.aborted,
        final(jl)@.released == old(jl)@.released, final(jl)@.awaited_at_release == old(jl)@.awaited_at_release
{ unimplemented!() }
#[verifier::external_body]
pub fn vx_choice() -> (r: bool) { true }
pub struct AtomicU64 { pub v: u64 }
impl AtomicU64 { pub fn load(&self, o: std::sync::atomic::Ordering) -> (r: u64) ensures r == self.v { self.v } }
pub use std::sync::atomic::Ordering;
#[verifier::external_body] pub fn vx_slice_to_vec(s: &[u8]) -> (r: Vec<u8>) ensures r@ == s@ { s.to_vec() }
