"""Recipe files (units/*.vx): which item of /repo to extract, which edit classes are allowed,
the contract to attach and the proof hints to inject.

    @unit <id>                       design id (U2 ...), informational
    @source <path relative to /repo>
    @item fn NAME | impl-fn "IMPL HEADER" NAME | impl "IMPL HEADER" | struct NAME | enum NAME | const NAME
          | static NAME | type NAME | range "IMPL HEADER or -" FN "start tokens" "end tokens" as "fn header"
    @fn NAME                         (inside an `impl` item: the settings below apply to this method)
    @rules D A R H L                 edit classes this item may use (others -> undecided)
    @opt key=value ...               rule options (hoist=<name>, elide=field:param, dropcalls=a,b, for=all)
    @ret NAME                        name of the result in the contract
    @param TEXT                      extra parameter appended by rule H
    @attr TEXT                       verus attribute line put in front of the fn (e.g. #[verifier::rlimit(50)])
    @contract                        following lines: requires/ensures clauses; `//# tag` names an obligation;
                                     `//# tag KNOWN <finding-id>` marks an expected-fail clause
    @before `tokens` [#n]            following lines are injected before the n-th occurrence of the token sequence
    @after `tokens` [#n]
    @after-stmt `tokens` [#n]        injected after the end of the STATEMENT that contains the n-th occurrence of the tokens
    @body-of-stmt `tokens` [#n]      injected at the start of the first block `{` that the statement opens after the tokens (the body of
                                     `if <..tokens..> {`, `match <..tokens..> {`)
    @before-stmt `tokens` [#n]       injected before the STATEMENT that contains the n-th occurrence of the tokens (the call may be
                                     wrapped in `if let Err(e) = ..`, `match ..`, `..?;` - the hint does not care)
    @before? / @after?               the same, but the injection is skipped when the anchor does not occur (used for the
                                     invariants and hints of a loop: without the loop they have no meaning; a loop that
                                     is there without them is refused by Verus for lack of a decreases clause)
    @verbatim                        following lines are specification-only text placed after the item (spec fns, lemmas)
"""
import re
import shlex


class Item:
    def __init__(self, unit, source, kind, args):
        self.unit, self.source, self.kind, self.args = unit, source, kind, args
        self.fns = {}          # name -> FnSpec (for impl items); "" for single-fn items
        self.verbatim = []
        self.rules = set()
        self.opts = {}

    def fn(self, name):
        if name not in self.fns:
            self.fns[name] = FnSpec(name)
        return self.fns[name]


class FnSpec:
    def __init__(self, name):
        self.name = name
        self.ret = None
        self.label = None
        self.params = []
        self.attrs = []
        self.contract = []     # raw lines
        self.injections = []   # (where, anchor, nth, text)
        self.known = []        # (tag glob, finding id): generated obligations (rule L) that are expected-fail


class Unit:
    def __init__(self, name):
        self.name = name
        self.design_id = name
        self.items = []
        self.uses = []
        self.hoists = {}


INJ = re.compile(r"@(before-stmt|after-stmt|body-of-stmt|before\??|after\??)\s+`(.*)`\s*(?:#(\d+))?\s*$")


def parse_recipe(path, name):
    u = Unit(name)
    source = None
    item = None
    fnspec = None
    mode = None
    cur_inj = None
    for raw in open(path):
        line = raw.rstrip("\n")
        s = line.strip()
        if s.startswith("@"):
            mode = None
            if cur_inj:
                fnspec.injections.append(tuple(cur_inj[:3]) + ("\n".join(cur_inj[3]),))
                cur_inj = None
            m = INJ.match(s)
            if m:
                cur_inj = [m.group(1), m.group(2), int(m.group(3) or 1), []]
                mode = "inj"
                continue
            key, _, rest = s.partition(" ")
            rest = rest.strip()
            if key == "@unit":
                u.design_id = rest
            elif key == "@use":
                u.uses.append(rest)
            elif key == "@source":
                source = rest
            elif key == "@item":
                parts = shlex.split(rest)
                item = Item(name, source, parts[0], parts[1:])
                u.items.append(item)
                fnspec = None
                if parts[0] == "fn":
                    fnspec = item.fn(parts[1])
                elif parts[0] == "impl-fn":
                    fnspec = item.fn(parts[2])
                elif parts[0] == "range":
                    fnspec = item.fn("vx_block")
                elif parts[0] == "ctor":
                    fnspec = item.fn("vx_ctor_" + parts[2])
            elif key == "@fn":
                fnspec = item.fn(rest)
            elif key == "@rules":
                item.rules = set(rest.split())
            elif key == "@opt":
                for kv in shlex.split(rest):
                    k, _, v = kv.partition("=")
                    item.opts[k] = v
            elif key == "@label":
                fnspec.label = rest
            elif key == "@known":
                g_, f_ = rest.split()
                fnspec.known.append((g_, f_))
            elif key == "@ret":
                fnspec.ret = rest
            elif key == "@param":
                fnspec.params.append(rest)
            elif key == "@attr":
                fnspec.attrs.append(rest)
            elif key == "@contract":
                mode = "contract"
            elif key == "@verbatim":
                mode = "verbatim"
            elif key == "@end":
                mode = None
            else:
                raise ValueError(f"{path}: unknown directive {key}")
            continue
        if mode == "contract":
            fnspec.contract.append(line)
        elif mode == "verbatim":
            item.verbatim.append(line)
        elif mode == "inj":
            cur_inj[3].append(line)
        elif s and not s.startswith("#"):
            raise ValueError(f"{path}: stray text outside a section: {line!r}")
    if cur_inj:
        fnspec.injections.append(tuple(cur_inj[:3]) + ("\n".join(cur_inj[3]),))
    return u


TAG = re.compile(r"//#\s*([A-Za-z0-9_\-]+)(?:\s+KNOWN\s+([A-Za-z0-9_\-]+))?\s*$")


def split_contract(lines):
    """-> (requires_lines, ensures_lines, other_lines) keeping tags"""
    sec = None
    out = {"requires": [], "ensures": [], "other": []}
    for ln in lines:
        s = ln.strip()
        if s == "requires" or s.startswith("requires "):
            sec = "requires"
            rest = s[len("requires"):].strip()
            if rest:
                out[sec].append("        " + rest)
            continue
        if s == "ensures" or s.startswith("ensures "):
            sec = "ensures"
            rest = s[len("ensures"):].strip()
            if rest:
                out[sec].append("        " + rest)
            continue
        if s.startswith("decreases") or s.startswith("opens_invariants") or s.startswith("no_unwind"):
            sec = "other"
            out[sec].append(ln)
            continue
        if sec is None:
            if s:
                raise ValueError("contract text before requires/ensures: " + ln)
            continue
        out[sec].append(ln)
    return out["requires"], out["ensures"], out["other"]
