// ---- shim cli_env: what the pool-settings block of src/bin/client.rs refers to (TRUSTED) ----
pub struct Duration { pub s: u64 }
impl Duration { pub fn from_secs(s: u64) -> (r: Duration) ensures r.s == s { Duration { s } } }
pub struct SessionPoolConfig { pub check_interval: Duration, pub idle_timeout: Duration, pub min_idle_sessions: usize }
impl SessionPoolConfig {
    // the library defaults (session_pool.rs Default impl: 30 s / 60 s / 1)
    pub fn default() -> (r: SessionPoolConfig) ensures r.check_interval.s == 30, r.idle_timeout.s == 60, r.min_idle_sessions == 1
    { SessionPoolConfig { check_interval: Duration { s: 30 }, idle_timeout: Duration { s: 60 }, min_idle_sessions: 1 } }
    // contract proved on the real function in group `pool` (unit pool, validate)
    #[verifier::external_body]
    pub fn validate(&self) -> (r: Result<()>) ensures r is Err <==> self.idle_timeout.s < self.check_interval.s { unimplemented!() }
}
// anyhow::Context::context: wraps the error, keeps the Ok value
pub struct AnyhowError;
pub trait VxContext<T> { fn context(self, msg: &str) -> std::result::Result<T, AnyhowError>; }
impl<T, E> VxContext<T> for std::result::Result<T, E> {
    #[verifier::external_body]
    fn context(self, msg: &str) -> (r: std::result::Result<T, AnyhowError>) ensures self is Ok ==> r is Ok && r->Ok_0 == self->Ok_0, self is Err ==> r is Err { unimplemented!() }
}
