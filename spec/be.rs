// ---- spec be: big-endian encode/decode are inverse (bit-vector proofs) ----
pub proof fn lemma_be16(n: u16) ensures de16(be16(n)) == n
{ assert(((((n >> 8) as u8) as u16) << 8 | (((n & 0xff) as u8) as u16)) as u16 == n) by (bit_vector); }
pub proof fn lemma_be32(n: u32) ensures de32(be32(n)) == n
{ assert(((((n >> 24) as u8) as u32) << 24 | ((((n >> 16) & 0xff) as u8) as u32) << 16 | ((((n >> 8) & 0xff) as u8) as u32) << 8 | (((n & 0xff) as u8) as u32)) as u32 == n) by (bit_vector); }
