// ---- shim tokio::io::{AsyncReadExt, AsyncWriteExt} (trusted) over PROPHECY / history views.
// A reader's `avail()` is the sequence of all bytes that will arrive before EOF or a transport error,
// so every fragmentation of the transport is covered by one contract.  A writer's `written()` is the
// byte string accepted so far, `wlens()` the list of write_all lengths, `flushes()` the flush count.
pub trait Unpin {}
pub trait AsyncReadExt {
    spec fn avail(&self) -> Seq<u8>;
    fn read_exact(&mut self, buf: &mut [u8]) -> (r: io::Result<usize>)
        ensures
            final(buf)@.len() == old(buf)@.len(),
            old(self).avail().len() >= old(buf)@.len() ==> r is Ok && final(buf)@ == old(self).avail().subrange(0, old(buf)@.len() as int)
                 && final(self).avail() == old(self).avail().subrange(old(buf)@.len() as int, old(self).avail().len() as int),
            old(self).avail().len() < old(buf)@.len() ==> r is Err;
    fn read_u8(&mut self) -> (r: io::Result<u8>)
        ensures
            old(self).avail().len() >= 1 ==> r is Ok && r->Ok_0 == old(self).avail()[0] && final(self).avail() == old(self).avail().subrange(1, old(self).avail().len() as int),
            old(self).avail().len() < 1 ==> r is Err;
    fn read_u16(&mut self) -> (r: io::Result<u16>)
        ensures
            old(self).avail().len() >= 2 ==> r is Ok && r->Ok_0 == de16(old(self).avail().subrange(0, 2)) && final(self).avail() == old(self).avail().subrange(2, old(self).avail().len() as int),
            old(self).avail().len() < 2 ==> r is Err;
    fn read_i16(&mut self) -> (r: io::Result<i16>)
        ensures
            old(self).avail().len() >= 2 ==> r is Ok && r->Ok_0 == de16(old(self).avail().subrange(0, 2)) as i16 && final(self).avail() == old(self).avail().subrange(2, old(self).avail().len() as int),
            old(self).avail().len() < 2 ==> r is Err;
    fn read_u32(&mut self) -> (r: io::Result<u32>)
        ensures
            old(self).avail().len() >= 4 ==> r is Ok && r->Ok_0 == de32(old(self).avail().subrange(0, 4)) && final(self).avail() == old(self).avail().subrange(4, old(self).avail().len() as int),
            old(self).avail().len() < 4 ==> r is Err;
    // one read: any non-empty prefix of what is available (partial reads), 0 only at end of input
    fn read(&mut self, buf: &mut [u8]) -> (r: io::Result<usize>)
        ensures
            final(buf)@.len() == old(buf)@.len(),
            r is Ok ==> r->Ok_0 <= old(buf)@.len() && r->Ok_0 <= old(self).avail().len()
                 && final(buf)@.subrange(0, r->Ok_0 as int) == old(self).avail().subrange(0, r->Ok_0 as int)
                 && final(buf)@.subrange(r->Ok_0 as int, old(buf)@.len() as int) == old(buf)@.subrange(r->Ok_0 as int, old(buf)@.len() as int)
                 && final(self).avail() == old(self).avail().subrange(r->Ok_0 as int, old(self).avail().len() as int),
            (r is Ok && r->Ok_0 == 0 && old(buf)@.len() > 0) ==> old(self).avail().len() == 0;
}
pub trait AsyncWriteExt {
    spec fn written(&self) -> Seq<u8>;
    spec fn wlens(&self) -> Seq<nat>;
    spec fn flushes(&self) -> nat;
    fn write_all(&mut self, buf: &[u8]) -> (r: io::Result<()>)
        ensures
            final(self).flushes() == old(self).flushes(),
            r is Ok ==> final(self).written() == old(self).written() + buf@ && final(self).wlens() == old(self).wlens().push(buf@.len() as nat),
            // a failed write may have put any prefix on the wire; nothing is known except that the history only grows
            r is Err ==> final(self).written().len() >= old(self).written().len();
    fn flush(&mut self) -> (r: io::Result<()>)
        ensures final(self).written() == old(self).written(), final(self).wlens() == old(self).wlens(),
            r is Ok ==> final(self).flushes() == old(self).flushes() + 1,
            r is Err ==> final(self).flushes() == old(self).flushes();
}
