// ---- spec padding_lemmas: C04 composition -- stripping Waste frames from a shaped write gives back the submitted frames ----
pub open spec fn strip_waste(fs: Seq<FrameS>) -> Seq<FrameS> { fs.filter(|f: FrameS| f.cmd != Command::Waste) }
pub open spec fn no_waste(fs: Seq<FrameS>) -> bool { forall|i: int| 0 <= i < fs.len() ==> (#[trigger] fs[i]).cmd != Command::Waste }

pub proof fn lemma_parse_waste(w: Seq<u8>)
    requires is_waste_stream(w)
    ensures parse(w).1.len() == 0, forall|i: int| 0 <= i < parse(w).0.len() ==> (#[trigger] parse(w).0[i]).cmd == Command::Waste
    decreases w.len()
{
    if w.len() == 0 { }
    else {
        let n = de16(w.subrange(5, 7)) as int;
        let r = w.subrange(7 + n, w.len() as int);
        lemma_parse_waste(r);
        assert(step(w) is Some);
        let f = step(w)->Some_0.0;
        assert(f.cmd == cmd_of(0u8));
        assert(parse(w).0 =~= seq![f] + parse(r).0);
        assert forall|i: int| 0 <= i < parse(w).0.len() implies (#[trigger] parse(w).0[i]).cmd == Command::Waste by {
            if i > 0 { assert(parse(w).0[i] == parse(r).0[i - 1]); }
        }
    }
}
pub proof fn lemma_filter_all_waste(ws: Seq<FrameS>)
    requires forall|i: int| 0 <= i < ws.len() ==> (#[trigger] ws[i]).cmd == Command::Waste
    ensures strip_waste(ws) == Seq::<FrameS>::empty()
    decreases ws.len()
{
    reveal(Seq::filter);
    if ws.len() > 0 { lemma_filter_all_waste(ws.drop_last()); assert(ws.last().cmd == Command::Waste); assert(ws.drop_last() =~= ws.drop_last()); }
}
pub proof fn lemma_filter_none_waste(fs: Seq<FrameS>)
    requires no_waste(fs)
    ensures strip_waste(fs) == fs
    decreases fs.len()
{
    reveal(Seq::filter);
    if fs.len() > 0 { lemma_filter_none_waste(fs.drop_last()); assert(fs.drop_last().push(fs.last()) =~= fs); }
}
// the statement of C04: what was put on the transport parses completely, and deleting
// the padding frames leaves exactly the frames the session was asked to send
pub proof fn lemma_strip(total: Seq<u8>, fs: Seq<FrameS>)
    requires
        frames_ok(fs), no_waste(fs),
        shaped(total, wire_all(fs)),
    ensures parse(total).1.len() == 0, strip_waste(parse(total).0) == fs
{
    let p = wire_all(fs); let w = total.subrange(p.len() as int, total.len() as int);
    assert(total =~= p + w);
    lemma_parse_wire_all(fs, w);
    lemma_parse_waste(w);
    lemma_filter_all_waste(parse(w).0);
    lemma_filter_none_waste(fs);
    Seq::filter_distributes_over_add(fs, parse(w).0, |f: FrameS| f.cmd != Command::Waste);
    assert(fs + Seq::<FrameS>::empty() =~= fs);
}
// several shaped writes in a row still parse to the submitted frames (packets k = 1, 2, ... of a session)
pub proof fn lemma_strip_two(t1: Seq<u8>, f1: Seq<FrameS>, t2: Seq<u8>, f2: Seq<FrameS>)
    requires frames_ok(f1), no_waste(f1), shaped(t1, wire_all(f1)), frames_ok(f2), no_waste(f2), shaped(t2, wire_all(f2)),
    ensures parse(t1 + t2).1.len() == 0, strip_waste(parse(t1 + t2).0) == f1 + f2
{
    lemma_strip(t1, f1); lemma_strip(t2, f2);
    lemma_chunking(t1, t2);
    assert(parse(t1).1 + t2 =~= t2);
    Seq::filter_distributes_over_add(parse(t1).0, parse(t2).0, |f: FrameS| f.cmd != Command::Waste);
}
