// ---- shim net: tokio::net::TcpStream as prophecy input + output history; std::net address types (TRUSTED) ----
pub mod tokio_net {
    use super::*;
    // `avail`: every byte the peer will deliver before EOF/error (prophecy: one contract covers every TCP segmentation);
    // `written`: bytes accepted so far; `flushes`, `shutdowns`: counters
    pub struct TcpStream { pub ghost avail: Seq<u8>, pub ghost written: Seq<u8>, pub ghost flushes: nat, pub ghost shutdowns: nat }
    impl TcpStream {
        #[verifier::external_body]
        pub fn read_exact(&mut self, buf: &mut [u8]) -> (r: io::Result<usize>)
            ensures
                final(buf)@.len() == old(buf)@.len(), final(self).written == old(self).written, final(self).flushes == old(self).flushes, final(self).shutdowns == old(self).shutdowns,
                old(self).avail.len() >= old(buf)@.len() ==> r is Ok
                     && final(buf)@ == old(self).avail.subrange(0, old(buf)@.len() as int)
                     && (forall|i: int| 0 <= i < old(buf)@.len() ==> final(buf)@[i] == old(self).avail[i])
                     && final(self).avail == old(self).avail.subrange(old(buf)@.len() as int, old(self).avail.len() as int),
                old(self).avail.len() < old(buf)@.len() ==> r is Err,
        { unimplemented!() }
        // one read: any non-empty prefix of what is available (partial reads), 0 only at end of input
        #[verifier::external_body]
        pub fn read(&mut self, buf: &mut [u8]) -> (r: io::Result<usize>)
            ensures
                final(buf)@.len() == old(buf)@.len(), final(self).written == old(self).written, final(self).flushes == old(self).flushes, final(self).shutdowns == old(self).shutdowns,
                r is Ok ==> r->Ok_0 <= old(buf)@.len() && r->Ok_0 <= old(self).avail.len()
                     && final(buf)@.subrange(0, r->Ok_0 as int) == old(self).avail.subrange(0, r->Ok_0 as int)
                     && (forall|i: int| 0 <= i < r->Ok_0 ==> final(buf)@[i] == old(self).avail[i])
                     && final(self).avail == old(self).avail.subrange(r->Ok_0 as int, old(self).avail.len() as int),
                (r is Ok && r->Ok_0 == 0 && old(buf)@.len() > 0) ==> old(self).avail.len() == 0,
                r is Err ==> old(self).avail.len() == 0 && final(self).avail == old(self).avail,
        { unimplemented!() }
        #[verifier::external_body]
        pub fn write_all(&mut self, buf: &[u8]) -> (r: io::Result<()>)
            ensures final(self).avail == old(self).avail, final(self).flushes == old(self).flushes, final(self).shutdowns == old(self).shutdowns,
                r is Ok ==> final(self).written == old(self).written + buf@,
                // a failed write may have put a prefix on the wire
                r is Err ==> final(self).written.len() >= old(self).written.len() && final(self).written.subrange(0, old(self).written.len() as int) == old(self).written
                    && final(self).written.len() <= old(self).written.len() + buf@.len() && (buf@.len() > 0 ==> final(self).written.len() < old(self).written.len() + buf@.len())
                    && final(self).written.subrange(old(self).written.len() as int, final(self).written.len() as int) == buf@.subrange(0, final(self).written.len() - old(self).written.len()),
                // the same, element-wise (on both outcomes)
                forall|i: int| 0 <= i < old(self).written.len() ==> final(self).written[i] == old(self).written[i],
                forall|i: int| old(self).written.len() <= i < final(self).written.len() ==> final(self).written[i] == buf@[i - old(self).written.len()],
        { unimplemented!() }
        #[verifier::external_body]
        pub fn flush(&mut self) -> (r: io::Result<()>)
            ensures final(self).avail == old(self).avail, final(self).written == old(self).written, final(self).shutdowns == old(self).shutdowns,
                r is Ok ==> final(self).flushes == old(self).flushes + 1, r is Err ==> final(self).flushes == old(self).flushes,
        { unimplemented!() }
        #[verifier::external_body]
        pub fn shutdown(&mut self) -> (r: io::Result<()>)
            ensures final(self).avail == old(self).avail, final(self).written == old(self).written, final(self).flushes == old(self).flushes,
                final(self).shutdowns == old(self).shutdowns + 1,
        { unimplemented!() }
    }
}
pub mod tokio { pub mod net { pub use super::super::tokio_net::TcpStream; }
    // time::timeout(d, fut): after async erasure the awaited operation has run to completion (its result is x) by the time the
    // call is made; the timer may still win, in which case that result is dropped (Err) - an over-approximation of both outcomes
    pub mod time { use vstd::prelude::*; pub struct Elapsed;
        #[verifier::external_body] pub fn timeout<D, T>(d: D, x: T) -> (r: std::result::Result<T, Elapsed>) ensures r is Ok ==> r->Ok_0 == x { unimplemented!() } } }

pub assume_specification<T: PartialEq> [<[T]>::contains] (s: &[T], x: &T) -> (r: bool)
    ensures r == s@.contains(*x);

