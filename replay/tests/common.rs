//! Common test utilities and helpers

use anytls_rs::{
    client::{Client, SessionPoolConfig},
    server::Server,
    util::tls,
};
use std::net::IpAddr;
use std::sync::Arc;
use tokio::io::{AsyncReadExt, AsyncWriteExt};
use tokio::net::TcpListener;
use tokio::task::JoinHandle;
use tokio::time::{Duration, sleep};
use tokio_rustls::rustls::pki_types::ServerName;

/// Test configuration
#[allow(dead_code)]
pub struct TestConfig {
    pub server_addr: String,
    pub client_listen: String,
    pub password: String,
}

impl Default for TestConfig {
    fn default() -> Self {
        Self {
            server_addr: "127.0.0.1:8443".to_string(),
            client_listen: "127.0.0.1:1080".to_string(),
            password: "test_password".to_string(),
        }
    }
}

#[allow(dead_code)]
pub fn new_test_config() -> anyhow::Result<TestConfig> {
    let server_port = {
        let listener = std::net::TcpListener::bind("127.0.0.1:0")?;
        let port = listener.local_addr()?.port();
        drop(listener);
        port
    };

    let client_port = {
        let listener = std::net::TcpListener::bind("127.0.0.1:0")?;
        let port = listener.local_addr()?.port();
        drop(listener);
        port
    };

    Ok(TestConfig {
        server_addr: format!("127.0.0.1:{server_port}"),
        client_listen: format!("127.0.0.1:{client_port}"),
        ..Default::default()
    })
}

/// Create a test server instance
pub async fn create_test_server(config: &TestConfig) -> anyhow::Result<Arc<Server>> {
    let server_config = tls::create_server_config()?;
    let tls_acceptor = Arc::new(tokio_rustls::TlsAcceptor::from(server_config));
    let padding = anytls_rs::padding::PaddingFactory::default();

    let server = Arc::new(Server::new(&config.password, tls_acceptor, padding, None));

    Ok(server)
}

/// Create a test client instance
#[allow(dead_code)]
pub async fn create_test_client(config: &TestConfig) -> anyhow::Result<Arc<Client>> {
    create_test_client_with_config(config, SessionPoolConfig::default()).await
}

/// Create a test client with custom session pool configuration
pub async fn create_test_client_with_config(
    config: &TestConfig,
    pool_config: SessionPoolConfig,
) -> anyhow::Result<Arc<Client>> {
    let client_config = tls::create_client_config()?;
    let tls_connector = Arc::new(tokio_rustls::TlsConnector::from(client_config));
    let padding = anytls_rs::padding::PaddingFactory::default();
    let server_name = build_server_name(&config.server_addr)?;

    let client = Arc::new(Client::with_pool_config(
        &config.password,
        config.server_addr.clone(),
        server_name,
        tls_connector,
        padding,
        pool_config,
    ));

    Ok(client)
}

fn build_server_name(addr: &str) -> anyhow::Result<ServerName<'static>> {
    let trimmed = addr.trim();
    if trimmed.is_empty() {
        anyhow::bail!("Server address is empty");
    }

    let host_part = if trimmed.starts_with('[') {
        trimmed
            .trim_start_matches('[')
            .trim_end_matches(']')
            .to_string()
    } else if let Some(idx) = trimmed.rfind(':') {
        let head = &trimmed[..idx];
        if head.contains(':') && !trimmed.contains(']') {
            // IPv6 literal without brackets
            head.to_string()
        } else {
            head.trim().trim_matches('[').trim_matches(']').to_string()
        }
    } else {
        trimmed.to_string()
    };

    if host_part.is_empty() {
        anyhow::bail!("Server hostname could not be determined from '{}'", addr);
    }

    if let Ok(ip) = host_part.parse::<IpAddr>() {
        Ok(ServerName::IpAddress(ip.into()))
    } else {
        ServerName::try_from(host_part.clone())
            .map_err(|_| anyhow::anyhow!("Invalid DNS name for SNI: {}", host_part))
    }
}

/// Wait for a condition to become true (with timeout)
#[allow(dead_code)]
pub async fn wait_for<F>(mut condition: F, timeout: Duration) -> bool
where
    F: FnMut() -> bool,
{
    let start = std::time::Instant::now();
    while start.elapsed() < timeout {
        if condition() {
            return true;
        }
        sleep(Duration::from_millis(100)).await;
    }
    false
}

/// Check if a port is listening
#[allow(dead_code)]
pub async fn is_port_listening(addr: &str) -> bool {
    use tokio::net::TcpStream;
    TcpStream::connect(addr).await.is_ok()
}

/// Spawn a simple TCP echo server for tests, returning its address and join handle.
#[allow(dead_code)]
pub async fn spawn_tcp_echo_server() -> anyhow::Result<(std::net::SocketAddr, JoinHandle<()>)> {
    let listener = TcpListener::bind("127.0.0.1:0").await?;
    let addr = listener.local_addr()?;

    let handle = tokio::spawn(async move {
        loop {
            match listener.accept().await {
                Ok((mut stream, _peer)) => {
                    tokio::spawn(async move {
                        let mut buf = [0u8; 1024];
                        loop {
                            match stream.read(&mut buf).await {
                                Ok(0) => break,
                                Ok(n) => {
                                    if stream.write_all(&buf[..n]).await.is_err() {
                                        break;
                                    }
                                }
                                Err(_) => break,
                            }
                        }
                    });
                }
                Err(e) => {
                    eprintln!("[Test Echo] Accept error: {e}");
                    break;
                }
            }
        }
    });

    Ok((addr, handle))
}
