//! Replays of findings that are RECORDED, not repaired (status open in /verif/known_findings.json).
//! Each test asserts the property clause; it FAILS on the current tree by design and reproduces the finding.
use anytls_rs::client::{SessionPool, SessionPoolConfig};
use anytls_rs::padding::PaddingFactory;
use anytls_rs::session::Session;
use std::sync::Arc;
use std::time::Duration;

fn pf() -> Arc<PaddingFactory> { Arc::new(PaddingFactory::new(anytls_rs::padding::DEFAULT_PADDING_SCHEME.as_bytes()).unwrap()) }

/// F-C08-a  stream.poll_shutdown.shutdown_tells_the_peer_end_of_stream
#[tokio::test]
async fn f_c08_a_shutdown_emits_fin() {
    use tokio::io::AsyncWriteExt;
    use tokio_util::codec::Decoder;
    let (a, b) = tokio::io::duplex(1 << 20);
    let (ar, aw) = tokio::io::split(a);
    let (mut br, _bw) = tokio::io::split(b);
    let s = Arc::new(Session::new_client(ar, aw, pf(), None));
    s.clone().start_client().await.unwrap();
    let (stream, _rx) = s.open_stream().await.unwrap();
    s.disable_buffering();
    let id = stream.id();
    s.write_data_frame(id, bytes::Bytes::from_static(b"bye")).await.unwrap();
    // half-close the sending side
    let mut st = Arc::try_unwrap(stream).ok().map(Some).unwrap_or(None);
    if let Some(st) = st.as_mut() { st.shutdown().await.unwrap(); }
    tokio::time::sleep(Duration::from_millis(200)).await;
    let mut buf = bytes::BytesMut::new();
    let mut tmp = vec![0u8; 65536];
    loop {
        match tokio::time::timeout(Duration::from_millis(200), tokio::io::AsyncReadExt::read(&mut br, &mut tmp)).await { Ok(Ok(n)) if n > 0 => buf.extend_from_slice(&tmp[..n]), _ => break }
    }
    let mut c = anytls_rs::protocol::FrameCodec;
    let mut fin = false;
    while let Some(f) = c.decode(&mut buf).unwrap() { if f.cmd == anytls_rs::protocol::Command::Fin && f.stream_id == id { fin = true; } }
    assert!(fin, "the stream was shut down but no FIN frame for stream {} reached the wire: the peer never sees end of stream", id);
}

/// F-C14-a  session_heartbeat.vx_block_heartbeat_tick.a_peer_that_answered_the_previous_request_in_time_is_never_declared_dead
/// interval 400 ms, timeout 100 ms (a pair the command line accepts); the peer answers every keep-alive request at once
/// (an in-memory pipe), yet the monitor closes the session at its second tick: now - last_answer ~ interval > timeout
async fn healthy_pair(interval_ms: u64, timeout_ms: u64) -> (Arc<Session>, Arc<Session>) {
    use anytls_rs::session::SessionHeartbeatConfig;
    let (a, b) = tokio::io::duplex(1 << 20);
    let (ar, aw) = tokio::io::split(a);
    let (br, bw) = tokio::io::split(b);
    let client = Arc::new(Session::new_client(ar, aw, pf(), Some(SessionHeartbeatConfig { interval: Duration::from_millis(interval_ms), timeout: Duration::from_millis(timeout_ms) })));
    let server = Arc::new(Session::new_server(br, bw, pf()));
    let s2 = server.clone();
    tokio::spawn(async move { let _ = s2.recv_loop().await; });
    let s3 = server.clone();
    tokio::spawn(async move { let _ = s3.process_stream_data().await; });
    client.clone().start_client().await.unwrap();
    client.disable_buffering();   // as create_proxy_stream does right after opening the first stream
    (client, server)
}

#[tokio::test]
async fn f_c14_a_healthy_session_survives_when_timeout_is_shorter_than_interval() {
    // control: the same peer with timeout > interval stays up, so the peer of this harness does answer in time
    let (c0, s0) = healthy_pair(100, 400).await;
    tokio::time::sleep(Duration::from_millis(1200)).await;
    assert!(!c0.is_closed() && !s0.is_closed(), "control failed: the replay is inconclusive");
    // the witness: interval 400 ms, timeout 100 ms
    let (client, _server) = healthy_pair(400, 100).await;
    tokio::time::sleep(Duration::from_millis(1500)).await;
    assert!(!client.is_closed(), "the peer answered every keep-alive request immediately, yet the liveness monitor closed the session (interval 400 ms > timeout 100 ms)");
}
