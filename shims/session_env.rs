// ---- shim session_env: everything `impl Session` refers to, after rule H (hoisting) ----
// TRUSTED / HAND-WRITTEN.  Interior-mutable fields of `Session` live in `SessionState`; effects on
// foreign objects (stream queues, one-shots, Notify, transport) are appended to the ghost effect
// log `fx` or recorded in the ghost history fields of `Writer`.
pub use std::collections::HashMap;
pub assume_specification<T> [std::mem::drop] (_0: T);

pub enum Effect {
    Send { chan: int, data: Seq<u8> },       // a chunk put on the inbound queue `chan` (tx.send(bytes) that succeeded or not: the attempt)
    NewStream { id: u32, chan: int },        // a stream handed to the accept callback; chan = its inbound queue
    NotifySynack { id: u32, ok: bool },      // Stream::notify_synack(result) on stream `id`
    CloseWithError { id: u32 },              // Stream::close_with_error on stream `id`
    NotifyWaiters,                           // close_notify.notify_waiters()
    Shutdown,                                // transport writer shutdown attempted
    Drew { pkt: u32, sizes: Seq<i32> },      // padding sizes drawn for session packet `pkt`
    HeartbeatSeen,                           // last_received refreshed
    ClockRead { t: u64 },                    // Instant::now() returned t
    TimedWait,                               // an awaited operation ran under time::timeout (a bounded wait)
    TimedWaitUntil { t: u64 },               // an awaited operation ran under time::timeout_at with this absolute deadline
    OwnTask,                                 // an operation was started in a task of its own (tokio::spawn): it is not cancelled when its spawner stops waiting
    DefaultSet { raw: Seq<u8> },              // PaddingFactory::update_default(raw) succeeded: raw is the process-wide default from now on
    Submit { frame: FrameS },                // ghost bookkeeping: a frame accepted by write_frame (its wire effect is write_frame's own postcondition)
}

pub mod atomic_shim {
    use super::*;
    pub struct AtomicBool { pub v: bool }
    impl AtomicBool {
        pub fn vx_new(v: bool) -> (r: Self) ensures r.v == v { AtomicBool { v } }
        pub fn load(&self, o: std::sync::atomic::Ordering) -> (r: bool) ensures r == self.v { self.v }
        pub fn store(&mut self, x: bool, o: std::sync::atomic::Ordering) ensures final(self).v == x { self.v = x; }
        pub fn swap(&mut self, x: bool, o: std::sync::atomic::Ordering) -> (r: bool) ensures r == old(self).v, final(self).v == x { let r = self.v; self.v = x; r }
    }
    pub struct AtomicU8 { pub v: u8 }
    impl AtomicU8 {
        pub fn vx_new(v: u8) -> (r: Self) ensures r.v == v { AtomicU8 { v } }
        pub fn load(&self, o: std::sync::atomic::Ordering) -> (r: u8) ensures r == self.v { self.v }
        pub fn store(&mut self, x: u8, o: std::sync::atomic::Ordering) ensures final(self).v == x { self.v = x; }
    }
    // `stores` counts plain stores: an id allocator must only ever be advanced by an atomic read-modify-write
    pub struct AtomicU32 { pub v: u32, pub ghost stores: nat }
    impl AtomicU32 {
        #[verifier::external_body]
        pub fn vx_new(v: u32) -> (r: Self) ensures r.v == v, r.stores == 0 { unimplemented!() }
        pub fn load(&self, o: std::sync::atomic::Ordering) -> (r: u32) ensures r == self.v { self.v }
        pub fn store(&mut self, x: u32, o: std::sync::atomic::Ordering) ensures final(self).v == x, final(self).stores == old(self).stores + 1 { self.v = x; proof { self.stores = self.stores + 1; } }
        #[verifier::external_body]
        pub fn fetch_add(&mut self, x: u32, o: std::sync::atomic::Ordering) -> (r: u32)
            ensures r == old(self).v, final(self).v == old(self).v.wrapping_add(x), final(self).stores == old(self).stores
        { let r = self.v; self.v = self.v.wrapping_add(x); r }
    }
    pub struct AtomicU64 { pub v: u64 }
    impl AtomicU64 {
        pub fn vx_new(v: u64) -> (r: Self) ensures r.v == v { AtomicU64 { v } }
        pub fn load(&self, o: std::sync::atomic::Ordering) -> (r: u64) ensures r == self.v { self.v }
        pub fn store(&mut self, x: u64, o: std::sync::atomic::Ordering) ensures final(self).v == x { self.v = x; }
    }
}
pub use atomic_shim::*;

// tokio::sync::mpsc with the effect log (send) -- recv side is in shim tokio_mpsc
pub mod mpsc_fx {
    use super::*;
    pub use mpsc::error::SendError;
    impl mpsc::UnboundedSender<Bytes> {
        #[verifier::external_body]
        pub fn send(&self, value: Bytes, fx: &mut Ghost<Seq<Effect>>) -> (r: std::result::Result<(), SendError<Bytes>>)
            ensures final(fx)@ == old(fx)@.push(Effect::Send { chan: self.chan(), data: value@ })
        { unimplemented!() }
    }
    impl mpsc::UnboundedSender<Arc<Stream>> {
        #[verifier::external_body]
        pub fn send(&self, value: Arc<Stream>, fx: &mut Ghost<Seq<Effect>>) -> (r: std::result::Result<(), SendError<Arc<Stream>>>)
            ensures final(fx)@ == old(fx)@.push(Effect::NewStream { id: value.id, chan: value.reader_chan })
        { unimplemented!() }
    }
}
pub use mpsc_fx::SendError;
pub mod oneshot {
    use super::*;
    #[verifier::external_body] #[verifier::reject_recursive_types(T)]
    pub struct Receiver<T> { t: std::marker::PhantomData<T> }
    impl<T> Receiver<T> { pub uninterp spec fn chan(&self) -> int; }
}

// Stream as the session sees it (the real Stream methods are verified in group `stream`; the
// correspondence between these effect-log contracts and those proofs is stated in DESIGN.md 2.3)
pub struct Stream { pub id: u32, pub ghost reader_chan: int, pub ghost writer_chan: int, pub ghost synack_chan: int, pub ghost closed_locally: bool }
impl Stream {
    #[verifier::external_body]
    pub fn new(id: u32, reader: StreamReader, writer_tx: mpsc::UnboundedSender<(u32, Bytes)>) -> (r: (Self, oneshot::Receiver<Result<()>>))
        ensures r.0.id == id, r.0.reader_chan == reader.chan(), r.0.writer_chan == writer_tx.chan(), r.0.synack_chan == r.1.chan()
    { unimplemented!() }
    #[verifier::external_body]
    pub fn close_with_error(&self, err: AnyTlsError, fx: &mut Ghost<Seq<Effect>>)
        ensures final(fx)@ == old(fx)@.push(Effect::CloseWithError { id: self.id })
    { unimplemented!() }
    #[verifier::external_body]
    pub fn notify_synack(&self, result: Result<()>, fx: &mut Ghost<Seq<Effect>>)
        ensures final(fx)@ == old(fx)@.push(Effect::NotifySynack { id: self.id, ok: result is Ok })
    { unimplemented!() }
    pub fn id(&self) -> (r: u32) ensures r == self.id { self.id }
    pub fn reader(&self) -> (r: ReaderCell) { ReaderCell { _p: () } }
    #[verifier::external_body] pub fn is_closed(&self) -> (r: bool) ensures r == self.closed_locally { unimplemented!() }
}
// Lock discipline towards stream consumers: a stream's consumer holds the reader lock WHILE it is parked waiting for data
// that only the session's receive path can deliver (or for the close that only the session performs).  Waiting for that
// lock from a Session method is a cyclic wait; no Session method may do it.  `may_wait_for_a_stream_consumer()` is never
// established, so any such acquisition is a failed obligation.
pub uninterp spec fn may_wait_for_a_stream_consumer() -> bool;
pub struct ReaderCell { pub _p: () }
pub struct ReaderGuard { pub _p: () }
impl ReaderCell {
    #[verifier::external_body]
    pub fn lock(&self) -> (r: ReaderGuard) requires may_wait_for_a_stream_consumer() { unimplemented!() }
}
impl ReaderGuard {
    #[verifier::external_body] pub fn buffer_len(&self) -> (r: usize) { unimplemented!() }
}
// the session only constructs readers and hands them to Stream::new
#[verifier::external_body]
pub struct StreamReader { _p: () }
impl StreamReader {
    pub uninterp spec fn chan(&self) -> int;
    pub uninterp spec fn sid(&self) -> u32;
    #[verifier::external_body]
    pub fn new(id: u32, rx: mpsc::UnboundedReceiver<Bytes>) -> (r: Self) ensures r.sid() == id, r.chan() == rx.chan() { unimplemented!() }
}
pub mod crate_paths {
    // `crate::session::StreamReader` etc. as written in the source
}
pub mod session { pub use super::StreamReader; pub use super::Stream; }

#[verifier::external_body]
pub fn vx_choice() -> (r: bool) { true }
pub struct Notified;
pub struct Notify { pub _p: () }
impl Notify {
    pub fn notified(&self) -> (r: Notified) { Notified }
    #[verifier::external_body]
    pub fn notify_waiters(&self, fx: &mut Ghost<Seq<Effect>>) ensures final(fx)@ == old(fx)@.push(Effect::NotifyWaiters) { }
}

// transport writer (self.writer.lock().await): ghost history of everything accepted so far
pub struct Writer { pub ghost bytes: Seq<u8>, pub ghost lens: Seq<nat>, pub ghost flushes: nat }
impl Writer {
    #[verifier::external_body]
    pub fn write_all(&mut self, buf: &[u8]) -> (r: io::Result<()>)
        ensures
            final(self).flushes == old(self).flushes,
            r is Ok ==> final(self).bytes == old(self).bytes + buf@ && final(self).lens == old(self).lens.push(buf@.len() as nat),
    { unimplemented!() }
    // AsyncWriteExt::write: ONE write call - the transport may accept only a prefix of the buffer (that is why the code uses write_all)
    #[verifier::external_body]
    pub fn write(&mut self, buf: &[u8]) -> (r: io::Result<usize>)
        ensures
            final(self).flushes == old(self).flushes,
            r is Ok ==> r->Ok_0 <= buf@.len() && final(self).bytes == old(self).bytes + buf@.subrange(0, r->Ok_0 as int) && final(self).lens == old(self).lens.push(r->Ok_0 as nat),
    { unimplemented!() }
    #[verifier::external_body]
    pub fn flush(&mut self) -> (r: io::Result<()>)
        ensures final(self).bytes == old(self).bytes, final(self).lens == old(self).lens,
            r is Ok ==> final(self).flushes == old(self).flushes + 1,
            r is Err ==> final(self).flushes == old(self).flushes,
    { unimplemented!() }
    #[verifier::external_body]
    pub fn shutdown(&mut self, fx: &mut Ghost<Seq<Effect>>) -> (r: io::Result<()>)
        ensures final(fx)@ == old(fx)@.push(Effect::Shutdown), final(self).bytes == old(self).bytes, final(self).lens == old(self).lens, final(self).flushes == old(self).flushes,
    { unimplemented!() }
}
// transport reader (self.reader.lock().await): `avail` is the PROPHECY of all bytes that arrive before EOF/error;
// one read_buf appends any non-empty prefix of it (every fragmentation), 0 only at end of input
pub struct Reader { pub ghost avail: Seq<u8> }
impl Reader {
    #[verifier::external_body]
    pub fn read_buf(&mut self, buf: &mut BytesMut) -> (r: io::Result<usize>)
        ensures
            r is Ok ==> r->Ok_0 <= old(self).avail.len() && final(buf)@ == old(buf)@ + old(self).avail.subrange(0, r->Ok_0 as int)
                && final(self).avail == old(self).avail.subrange(r->Ok_0 as int, old(self).avail.len() as int),
            (r is Ok && r->Ok_0 == 0) ==> old(self).avail.len() == 0,
            // an error ends the input: by definition of the prophecy nothing was left to arrive before it
            r is Err ==> final(buf)@ == old(buf)@ && old(self).avail.len() == 0 && final(self).avail == old(self).avail,
    { unimplemented!() }
}
impl io::Error {
    #[verifier::external_body]
    pub fn to_string(&self) -> (r: String) { String::new() }
}
pub struct Elapsed;
#[derive(Clone, Copy)]
pub struct Duration { pub ms: u64 }
impl Duration {
    #[verifier::external_body]
    pub fn from_secs(s: u64) -> (r: Duration) { Duration { ms: 0 } }
}
pub struct Instant { pub t: u64 }   // milliseconds on the monotonic clock
impl Instant {
    // the monotonic clock, read: the value is recorded in the effect log
    #[verifier::external_body] pub fn now(fx: &mut Ghost<Seq<Effect>>) -> (r: Instant) ensures final(fx)@ == old(fx)@.push(Effect::ClockRead { t: r.t }) { unimplemented!() }
    // self + d, None when the sum is beyond the clock's range (std: checked_add never panics)
    #[verifier::external_body]
    pub fn checked_add(&self, d: Duration) -> (r: Option<Instant>)
        ensures self.t + d.ms <= u64::MAX ==> r is Some && r->Some_0.t == self.t + d.ms, self.t + d.ms > u64::MAX ==> r is None
    { unimplemented!() }
    // now - earlier, zero when `earlier` is in the future
    #[verifier::external_body]
    pub fn saturating_duration_since(&self, earlier: Instant) -> (r: Duration)
        ensures r.ms == (if self.t >= earlier.t { self.t - earlier.t } else { 0 })
    { unimplemented!() }
}
// comparison operators on durations and instants: the order of their millisecond values

impl PartialEq for Duration { fn eq(&self, o: &Duration) -> (r: bool) ensures r == (self.ms == o.ms) { self.ms == o.ms } }
impl vstd::std_specs::cmp::PartialEqSpecImpl for Duration {
    open spec fn obeys_eq_spec() -> bool { true }
    open spec fn eq_spec(&self, o: &Duration) -> bool { self.ms == o.ms }
}
impl PartialOrd for Duration {
    fn partial_cmp(&self, o: &Duration) -> (r: Option<core::cmp::Ordering>) { if self.ms < o.ms { Some(core::cmp::Ordering::Less) } else if self.ms == o.ms { Some(core::cmp::Ordering::Equal) } else { Some(core::cmp::Ordering::Greater) } }
}
impl vstd::std_specs::cmp::PartialOrdSpecImpl for Duration {
    open spec fn obeys_partial_cmp_spec() -> bool { true }
    open spec fn partial_cmp_spec(&self, o: &Duration) -> Option<core::cmp::Ordering> { if self.ms < o.ms { Some(core::cmp::Ordering::Less) } else if self.ms == o.ms { Some(core::cmp::Ordering::Equal) } else { Some(core::cmp::Ordering::Greater) } }
}

impl PartialEq for Instant { fn eq(&self, o: &Instant) -> (r: bool) ensures r == (self.t == o.t) { self.t == o.t } }
impl vstd::std_specs::cmp::PartialEqSpecImpl for Instant {
    open spec fn obeys_eq_spec() -> bool { true }
    open spec fn eq_spec(&self, o: &Instant) -> bool { self.t == o.t }
}
impl PartialOrd for Instant {
    fn partial_cmp(&self, o: &Instant) -> (r: Option<core::cmp::Ordering>) { if self.t < o.t { Some(core::cmp::Ordering::Less) } else if self.t == o.t { Some(core::cmp::Ordering::Equal) } else { Some(core::cmp::Ordering::Greater) } }
}
impl vstd::std_specs::cmp::PartialOrdSpecImpl for Instant {
    open spec fn obeys_partial_cmp_spec() -> bool { true }
    open spec fn partial_cmp_spec(&self, o: &Instant) -> Option<core::cmp::Ordering> { if self.t < o.t { Some(core::cmp::Ordering::Less) } else if self.t == o.t { Some(core::cmp::Ordering::Equal) } else { Some(core::cmp::Ordering::Greater) } }
}
impl Clone for Instant { #[verifier::external_body] fn clone(&self) -> (r: Self) ensures r == *self { unimplemented!() } }
impl Copy for Instant {}
impl Duration {
    pub fn vx_gt(&self, o: &Duration) -> (r: bool) ensures r == (self.ms > o.ms) { self.ms > o.ms }
    pub fn as_secs(&self) -> (r: u64) ensures r == self.ms / 1000 { self.ms / 1000 }
    pub fn as_millis(&self) -> (r: u128) ensures r == self.ms { self.ms as u128 }
}
// tokio::time::interval: ticks at now + first_delay, then every period
pub struct Interval { pub ghost first_delay_ms: int, pub ghost period_ms: int, pub ghost delay_on_miss: bool }
pub enum MissedTickBehavior { Burst, Delay, Skip }
impl Interval {
    #[verifier::external_body]
    pub fn set_missed_tick_behavior(&mut self, b: MissedTickBehavior)
        ensures final(self).first_delay_ms == old(self).first_delay_ms, final(self).period_ms == old(self).period_ms, final(self).delay_on_miss == (b is Delay)
    { }
    #[verifier::external_body] pub fn tick(&mut self) ensures *final(self) == *old(self) { }
}
// how far in the future an instant lies when it is handed to interval_at (the clock is not modelled: unknown)
pub uninterp spec fn vx_delay_until(start: Instant) -> int;
impl std::ops::Add<Duration> for Instant {
    type Output = Instant;
    #[verifier::external_body] fn add(self, d: Duration) -> (r: Instant) { unimplemented!() }
}
// tokio::spawn(async move { B }) whose JoinHandle is awaited (rule A): the value of B, or a JoinError if the task panicked
pub struct JoinError { pub _p: () }
impl std::fmt::Display for JoinError { #[verifier::external_body] fn fmt(&self, f: &mut std::fmt::Formatter<'_>) -> std::fmt::Result { unimplemented!() } }
#[verifier::external_body]
pub fn vx_spawned<T>(x: T, fx: &mut Ghost<Seq<Effect>>) -> (r: std::result::Result<T, JoinError>)
    ensures r is Ok ==> r->Ok_0 == x, final(fx)@ == old(fx)@.push(Effect::OwnTask)
{ unimplemented!() }
pub mod time {
    use super::*;
    pub use super::Interval; pub use super::MissedTickBehavior;
    // interval(p): the first tick completes immediately
    #[verifier::external_body]
    pub fn interval(period: Duration) -> (r: Interval) ensures r.first_delay_ms == 0, r.period_ms == period.ms, !r.delay_on_miss { unimplemented!() }
    #[verifier::external_body]
    pub fn interval_at(start: Instant, period: Duration) -> (r: Interval) ensures r.first_delay_ms == vx_delay_until(start), r.period_ms == period.ms, !r.delay_on_miss { unimplemented!() }
    // time::timeout(d, fut): after async erasure the awaited operation has run to completion; the timer may still fire
    #[verifier::external_body]
    pub fn timeout<T>(d: Duration, x: T, fx: &mut Ghost<Seq<Effect>>) -> (r: std::result::Result<T, Elapsed>)
        ensures r is Ok ==> r->Ok_0 == x, final(fx)@ == old(fx)@.push(Effect::TimedWait)
    { unimplemented!() }
    // time::timeout_at(deadline, fut): the same with an absolute deadline. In the erased model the operation `x` has already run; in
    // the real program an Err(Elapsed) means it was CANCELLED at an await point - the caller must not rely on its effects then
    #[verifier::external_body]
    pub fn timeout_at<T>(at: Instant, x: T, fx: &mut Ghost<Seq<Effect>>) -> (r: std::result::Result<T, Elapsed>)
        ensures r is Ok ==> r->Ok_0 == x, final(fx)@ == old(fx)@.push(Effect::TimedWaitUntil { t: at.t })
    { unimplemented!() }
}

pub struct StringMap { pub _m: HashMap<String, String> }
impl StringMap {
    pub uninterp spec fn lookup(&self, k: Seq<char>) -> Option<Seq<char>>;
    pub uninterp spec fn bytes_spec(&self) -> Seq<u8>;
    pub uninterp spec fn parse_spec(data: Seq<u8>) -> StringMap;
    #[verifier::external_body] pub fn from_bytes(data: &[u8]) -> (r: Self) ensures r == Self::parse_spec(data@) { unimplemented!() }
    #[verifier::external_body] pub fn new() -> (r: Self) { unimplemented!() }
    #[verifier::external_body] pub fn get(&self, key: &str) -> (r: Option<&String>) ensures (r is Some) == (self.lookup(key@) is Some), r is Some ==> r->Some_0@ == self.lookup(key@)->Some_0 { unimplemented!() }
    #[verifier::external_body] pub fn insert<K: Into<String>, V: Into<String>>(&mut self, key: K, value: V) { unimplemented!() }
    #[verifier::external_body] pub fn to_bytes(&self) -> (r: Vec<u8>) ensures r@ == self.bytes_spec() { unimplemented!() }
    #[verifier::external_body] pub fn into_vec(self) -> (r: Vec<(String, String)>) { unimplemented!() }
}
impl Clone for StringMap { #[verifier::external_body] fn clone(&self) -> (r: Self) ensures r == *self { unimplemented!() } }

pub const CHECK_MARK: i32 = -1;
pub mod padding { pub use super::CHECK_MARK; }
pub mod protocol { pub use super::Command; pub use super::HEADER_OVERHEAD_SIZE; }

#[verifier::external_body]
pub struct PaddingFactory { _p: () }
impl PaddingFactory {
    pub uninterp spec fn may_draw(&self, pkt: u32, sizes: Seq<i32>) -> bool;
    pub uninterp spec fn stop_spec(&self) -> u32;
    pub uninterp spec fn md5_spec(&self) -> Seq<char>;
    pub uninterp spec fn raw_spec(&self) -> Seq<u8>;
    // the process-wide default cell, as a function of the history of update_default calls: modelled as nondeterministic
    pub uninterp spec fn parseable(raw: Seq<u8>) -> bool;
    #[verifier::external_body]
    pub fn generate_record_payload_sizes(&self, pkt: u32, fx: &mut Ghost<Seq<Effect>>) -> (r: Vec<i32>)
        ensures self.may_draw(pkt, r@), final(fx)@ == old(fx)@.push(Effect::Drew { pkt: pkt, sizes: r@ })
    { unimplemented!() }
    #[verifier::external_body]
    pub fn stop(&self) -> (r: u32) ensures r == self.stop_spec() { unimplemented!() }
    #[verifier::external_body]
    pub fn md5(&self) -> (r: &str) ensures r@ == self.md5_spec() { unimplemented!() }
    #[verifier::external_body]
    pub fn raw_scheme(&self) -> (r: &[u8]) ensures r@ == self.raw_spec() { unimplemented!() }
    // contract of unit `factory` (update_default / default) as the session sees it, over the effect log
    #[verifier::external_body]
    pub fn update_default(raw: &[u8], fx: &mut Ghost<Seq<Effect>>) -> (r: std::result::Result<(), String>)
        ensures Self::parseable(raw@) ==> r is Ok && final(fx)@ == old(fx)@.push(Effect::DefaultSet { raw: raw@ }),
                !Self::parseable(raw@) ==> r is Err && final(fx)@ == old(fx)@
    { unimplemented!() }
    #[verifier::external_body]
    pub fn default(fx: &mut Ghost<Seq<Effect>>) -> (r: Arc<PaddingFactory>)
        ensures final(fx)@ == old(fx)@, current_default(old(fx)@) is Some ==> r.raw_spec() == current_default(old(fx)@)->Some_0
    { unimplemented!() }
}
pub use std::sync::Arc;
pub mod md5 { pub struct Digest; #[verifier::external_body] pub fn compute(b: &[u8]) -> Digest { Digest } }

#[verifier::external_body]
pub fn vx_parse_u8(s: &&String) -> (r: std::result::Result<u8, ()>) { unimplemented!() }
#[verifier::external_body]
pub fn vx_string_ne_str(a: &String, b: &str) -> (r: bool) ensures r == (a@ != b@) { unimplemented!() }
#[verifier::external_body]
pub fn vx_take_any<V>(m: &mut HashMap<u32, V>) -> (r: Option<(u32, V)>)
    ensures
        r is Some ==> old(m)@.contains_key(r->Some_0.0) && old(m)@[r->Some_0.0] == r->Some_0.1 && final(m)@ == old(m)@.remove(r->Some_0.0),
        r is None ==> old(m)@.dom().len() == 0 && final(m)@ == old(m)@,
{ unimplemented!() }

pub struct HeartbeatState { pub interval: Duration, pub timeout: Duration }
pub type StreamDataReceiver = mpsc::UnboundedReceiver<(u32, Bytes)>;
pub mod tsync {
    // tokio::sync::Mutex that the extracted units only read through (on_new_stream callback cell)
    pub struct Mutex<T> { pub inner: T }
    impl<T> Mutex<T> { pub fn lock(&self) -> (r: &T) ensures *r == self.inner { &self.inner } }
}

// hoisted (interior-mutable) part of Session
pub struct SessionState {
    pub reader: Reader,
    pub writer: Writer,
    pub streams: HashMap<u32, Arc<Stream>>,
    pub stream_id: AtomicU32,
    pub stream_data_rx: Option<StreamDataReceiver>,
    pub stream_receive_tx: HashMap<u32, mpsc::UnboundedSender<Bytes>>,
    pub is_closed: AtomicBool,
    pub padding: Arc<PaddingFactory>,
    pub pkt_counter: AtomicU32,
    pub peer_version: AtomicU8,
    pub seq: AtomicU64,
    pub buffering: AtomicBool,
    pub buffer: Vec<u8>,
    pub hb_last_received: Instant,
    pub fx: Ghost<Seq<Effect>>,
    pub dlog: Ghost<Seq<FrameS>>,   // ghost: every frame recv_loop handed to handle_frame, in order (updated only by specification text injected into recv_loop)
    pub ghost acq_writer: nat,      // how many times the transport-writer lock has been acquired (rule L counter)
}
impl SessionState {
    // representation invariant of the two stream tables
    pub open spec fn wf(&self) -> bool {
        &&& true
        &&& self.streams@.dom() == self.stream_receive_tx@.dom()
        &&& forall|k: u32| self.streams@.contains_key(k) ==> (#[trigger] self.streams@[k]).id == k
        &&& forall|k: u32| self.streams@.contains_key(k) ==> (#[trigger] self.streams@[k]).reader_chan == self.stream_receive_tx@[k].chan()
    }
    pub open spec fn tables_eq(&self, o: &SessionState) -> bool {
        self.streams@ == o.streams@ && self.stream_receive_tx@ == o.stream_receive_tx@
    }
}
// immutable part of Session
pub struct Session {
    pub id: u64,
    pub stream_data_tx: mpsc::UnboundedSender<(u32, Bytes)>,
    pub is_client: bool,
    pub send_padding: bool,
    pub on_new_stream: Option<Arc<tsync::Mutex<Option<mpsc::UnboundedSender<Arc<Stream>>>>>>,
    pub server_settings: Option<StringMap>,
    pub heartbeat: Option<Arc<HeartbeatState>>,
    pub close_notify: Arc<Notify>,
}
impl Session {
    pub fn id(&self) -> (r: u64) ensures r == self.id { self.id }
}

// projections of the effect log (postconditions are stated over these, so the drain order of a HashMap does not matter)
pub open spec fn closed_ids(fx: Seq<Effect>) -> Set<u32> decreases fx.len()
{ if fx.len() == 0 { Set::empty() } else { let r = closed_ids(fx.drop_last()); match fx.last() { Effect::CloseWithError { id } => r.insert(id), _ => r } } }
pub open spec fn failed_ids(fx: Seq<Effect>) -> Set<u32> decreases fx.len()
{ if fx.len() == 0 { Set::empty() } else { let r = failed_ids(fx.drop_last()); match fx.last() { Effect::NotifySynack { id, ok } => if !ok { r.insert(id) } else { r }, _ => r } } }
pub open spec fn n_waiters(fx: Seq<Effect>) -> nat decreases fx.len()
{ if fx.len() == 0 { 0 } else { n_waiters(fx.drop_last()) + (if fx.last() == Effect::NotifyWaiters { 1nat } else { 0nat }) } }
pub open spec fn n_shutdown(fx: Seq<Effect>) -> nat decreases fx.len()
{ if fx.len() == 0 { 0 } else { n_shutdown(fx.drop_last()) + (if fx.last() == Effect::Shutdown { 1nat } else { 0nat }) } }
// everything delivered to inbound queues / callbacks / one-shots (the part of the log other streams could observe)
pub open spec fn deliveries(fx: Seq<Effect>) -> Seq<Effect> decreases fx.len()
{ if fx.len() == 0 { Seq::empty() } else { let r = deliveries(fx.drop_last()); match fx.last() { Effect::Send { .. } => r.push(fx.last()), Effect::NewStream { .. } => r.push(fx.last()), Effect::NotifySynack { .. } => r.push(fx.last()), Effect::CloseWithError { .. } => r.push(fx.last()), _ => r } } }
pub broadcast proof fn lemma_closed_push(fx: Seq<Effect>, e: Effect)
    ensures #[trigger] closed_ids(fx.push(e)) == (match e { Effect::CloseWithError { id } => closed_ids(fx).insert(id), _ => closed_ids(fx) })
{ assert(fx.push(e).drop_last() =~= fx); assert(fx.push(e).last() == e); }
pub broadcast proof fn lemma_failed_push(fx: Seq<Effect>, e: Effect)
    ensures #[trigger] failed_ids(fx.push(e)) == (match e { Effect::NotifySynack { id, ok } => if !ok { failed_ids(fx).insert(id) } else { failed_ids(fx) }, _ => failed_ids(fx) })
{ assert(fx.push(e).drop_last() =~= fx); assert(fx.push(e).last() == e); }
pub broadcast proof fn lemma_waiters_push(fx: Seq<Effect>, e: Effect)
    ensures #[trigger] n_waiters(fx.push(e)) == n_waiters(fx) + (if e == Effect::NotifyWaiters { 1nat } else { 0nat })
{ assert(fx.push(e).drop_last() =~= fx); assert(fx.push(e).last() == e); }
pub broadcast proof fn lemma_shutdown_push(fx: Seq<Effect>, e: Effect)
    ensures #[trigger] n_shutdown(fx.push(e)) == n_shutdown(fx) + (if e == Effect::Shutdown { 1nat } else { 0nat })
{ assert(fx.push(e).drop_last() =~= fx); assert(fx.push(e).last() == e); }
pub broadcast proof fn lemma_deliveries_push(fx: Seq<Effect>, e: Effect)
    ensures #[trigger] deliveries(fx.push(e)) == (match e { Effect::Send { .. } => deliveries(fx).push(e), Effect::NewStream { .. } => deliveries(fx).push(e), Effect::NotifySynack { .. } => deliveries(fx).push(e), Effect::CloseWithError { .. } => deliveries(fx).push(e), _ => deliveries(fx) })
{ assert(fx.push(e).drop_last() =~= fx); assert(fx.push(e).last() == e); }
// the frames handed to write_frame, in order
// the raw scheme of the process-wide default, as far as this log knows it
pub open spec fn current_default(fx: Seq<Effect>) -> Option<Seq<u8>> decreases fx.len()
{ if fx.len() == 0 { None } else { match fx.last() { Effect::DefaultSet { raw } => Some(raw), _ => current_default(fx.drop_last()) } } }
pub broadcast proof fn lemma_current_default_push(fx: Seq<Effect>, e: Effect)
    ensures #[trigger] current_default(fx.push(e)) == (match e { Effect::DefaultSet { raw } => Some(raw), _ => current_default(fx) })
{ assert(fx.push(e).drop_last() =~= fx); assert(fx.push(e).last() == e); }
pub open spec fn submitted(fx: Seq<Effect>) -> Seq<FrameS> decreases fx.len()
{ if fx.len() == 0 { Seq::empty() } else { let r = submitted(fx.drop_last()); match fx.last() { Effect::Submit { frame } => r.push(frame), _ => r } } }
pub broadcast proof fn lemma_submitted_push(fx: Seq<Effect>, e: Effect)
    ensures #[trigger] submitted(fx.push(e)) == (match e { Effect::Submit { frame } => submitted(fx).push(frame), _ => submitted(fx) })
{ assert(fx.push(e).drop_last() =~= fx); assert(fx.push(e).last() == e); }
pub open spec fn n_timed(fx: Seq<Effect>) -> nat decreases fx.len()
{ if fx.len() == 0 { 0 } else { n_timed(fx.drop_last()) + (if fx.last() is TimedWait { 1nat } else { 0nat }) } }
pub broadcast proof fn lemma_timed_push(fx: Seq<Effect>, e: Effect)
    ensures #[trigger] n_timed(fx.push(e)) == n_timed(fx) + (if e is TimedWait { 1nat } else { 0nat })
{ assert(fx.push(e).drop_last() =~= fx); assert(fx.push(e).last() == e); }
pub broadcast group group_proj { lemma_timed_push, lemma_closed_push, lemma_failed_push, lemma_waiters_push, lemma_shutdown_push, lemma_deliveries_push, lemma_submitted_push, lemma_current_default_push }
// module paths as written in the source
pub mod tokio { pub mod sync { pub use super::super::oneshot; pub use super::super::mpsc; pub use super::super::tsync::Mutex; } pub mod time { pub use super::super::time::*; pub use super::super::Duration; pub use super::super::Instant; } }

pub proof fn lemma_dispatch_prefix(dl0: Seq<FrameS>, disp: Seq<FrameS>, rest: Seq<FrameS>, all: Seq<FrameS>, dl: Seq<FrameS>)
    requires dl == dl0 + disp, disp + rest == all
    ensures dl.len() >= dl0.len(), dl.subrange(0, dl0.len() as int) == dl0, dl.subrange(dl0.len() as int, dl.len() as int).is_prefix_of(all),
        rest.len() == 0 ==> dl == dl0 + all
{
    assert(dl.subrange(0, dl0.len() as int) =~= dl0);
    assert(dl.subrange(dl0.len() as int, dl.len() as int) =~= disp);
    assert(disp =~= all.subrange(0, disp.len() as int));
    if rest.len() == 0 { assert(disp =~= all); }
}

// the same as an automatic fact (no hint at the exits of recv_loop needed): whenever the terms dl0 + disp and disp + rest exist
pub broadcast proof fn lemma_dispatch_prefix_auto(dl0: Seq<FrameS>, disp: Seq<FrameS>, rest: Seq<FrameS>)
    ensures
        #![trigger (dl0 + disp), (disp + rest)]
        (dl0 + disp).len() >= dl0.len(), (dl0 + disp).subrange(0, dl0.len() as int) == dl0,
        (dl0 + disp).subrange(dl0.len() as int, (dl0 + disp).len() as int).is_prefix_of(disp + rest),
        rest.len() == 0 ==> (dl0 + disp) == dl0 + (disp + rest)
{ lemma_dispatch_prefix(dl0, disp, rest, disp + rest, dl0 + disp); }

// what one item of the outbound queue becomes on the write path: a non-empty chunk goes out as the PSH frame(s) that carry it;
// an EMPTY chunk is the end-of-data marker queued by Stream::send_fin and goes out as FIN of that stream
pub open spec fn out_frames(sid: u32, d: Seq<u8>) -> Seq<FrameS>
{ if d.len() == 0 { seq![FrameS { cmd: Command::Fin, stream_id: sid, data: Seq::<u8>::empty() }] } else { psh_frames(sid, d) } }
// everything a sequence of (stream id, chunk) items becomes on the write path, in order
pub open spec fn out_all(items: Seq<(u32, Seq<u8>)>) -> Seq<FrameS> decreases items.len()
{ if items.len() == 0 { Seq::empty() } else { out_all(items.drop_last()) + out_frames(items.last().0, items.last().1) } }

// Lock coverage: the state that decides what goes on the wire next (the pending-frame buffer) must stay locked from the moment
// the pending frames are taken out until they have been written; otherwise another task's frame can be written in between.
// `held` is the rule-L ghost flag of that lock at the call site (0 = not held, 2 = held for writing).
pub proof fn vx_needs_lock_still_held(held: int) requires held == 2 { }
