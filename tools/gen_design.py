#!/usr/bin/env python3
"""DESIGN.md = DESIGN.part1.md (as built; @@SEEDTABLE@@ and @@NUMBERS@@ filled from seeded/RESULTS.md and evidence/) + DESIGN.part2.md (design-phase plan)"""
import os, json, glob
R = os.path.dirname(os.path.dirname(os.path.abspath(__file__)))
p1 = open(os.path.join(R, "DESIGN.part1.md")).read()
p2 = open(os.path.join(R, "DESIGN.part2.md")).read()
seed = open(os.path.join(R, "seeded", "RESULTS.md")).read() if os.path.exists(os.path.join(R, "seeded", "RESULTS.md")) else "(run tools/seed_report.py)"
res = json.load(open(os.path.join(R, "seeded", "RESULTS.json"))) if os.path.exists(os.path.join(R, "seeded", "RESULTS.json")) else {}
c = sum(1 for r in res.values() if r["outcome"] == "CAUGHT")
u = sum(1 for r in res.values() if r["outcome"].startswith("UNDECIDED"))
m = len(res) - c - u
seed = f"**{len(res)} kept seeds: {c} caught (VIOLATION), {u} undecided (exit 2), {m} missed.**\n\n" + seed
rows = ["| id | obligations (all discharged) | expected-fail (open finding) | functions in the groups used | solver ms | wall s |", "|---|---|---|---|---|---|"]
for f in sorted(glob.glob(os.path.join(R, "evidence", "C*.json"))):
    d = json.load(open(f)); cv = d["coverage"]
    if "obligations" not in cv:
        continue
    ef = ", ".join(sorted({e["finding"] for e in cv.get("expected_fail_obligations", []) if e["status"] == "fails"}))
    rows.append(f"| {d['property_id']} | {cv['obligations']} | {len([e for e in cv.get('expected_fail_obligations', []) if e['status']=='fails'])}{' (' + ef + ')' if ef else ''} | {len(cv['functions_under_contract'])} | {cv['solver_total_ms']} | {d['wall_s']} |")
p1 = p1.replace("@@SEEDTABLE@@", seed).replace("@@NUMBERS@@", "\n".join(rows))
open(os.path.join(R, "DESIGN.md"), "w").write(p1 + "\n\n# Part II — design-phase plan (written before any code; historical, superseded by Part I where they differ)\n\n" + p2)
print("DESIGN.md written", len(p1.splitlines()), "+", len(p2.splitlines()), "lines")
