// ---- shim clientsess_env: Client::create_new_session's session construction (TRUSTED) ----
pub use std::sync::Arc;
// gen = identity of the allocation (Arc::ptr_eq compares it); raw = the scheme text
pub struct PaddingFactory { pub ghost raw: Seq<u8>, pub ghost gen: int }
#[verifier::external_body] pub fn vx_same_arc(a: &Arc<PaddingFactory>, b: &Arc<PaddingFactory>) -> (r: bool) ensures r == (a.gen == b.gen), r ==> **a == **b { unimplemented!() }
pub struct DefaultCell { pub v: Arc<PaddingFactory> }       // the process-wide default scheme (PaddingFactory::default())
pub struct Duration { pub s: u64 }
impl Clone for Duration { fn clone(&self) -> (r: Self) ensures r == *self { Duration { s: self.s } } }
impl Copy for Duration {}
pub struct SessionPoolConfig { pub check_interval: Duration, pub idle_timeout: Duration, pub min_idle_sessions: usize }
pub struct SessionHeartbeatConfig { pub interval: Duration, pub timeout: Duration }
pub struct Client { pub password_hash: [u8; 32], pub padding: Arc<PaddingFactory>, pub pool_config: SessionPoolConfig, pub session_pool: Arc<PoolT>, pub default_seen: Arc<PaddingFactory> }
pub struct RdHalf; pub struct WrHalf { pub ghost preamble_scheme: Option<Seq<u8>> }
// the TLS connection to the server right after the handshake: nothing has been sent on it yet
pub struct TlsStreamC { pub _p: () }
pub mod tokio { pub mod io { use super::super::*; #[verifier::external_body] pub fn split(s: TlsStreamC) -> (r: (RdHalf, WrHalf)) ensures r.1.preamble_scheme is None { unimplemented!() } } }
#[verifier::external_body]
pub fn send_authentication(w: &mut WrHalf, h: &[u8; 32], p: &Arc<PaddingFactory>) -> (r: Result<()>)
    ensures r is Ok ==> final(w).preamble_scheme == Some(p.raw)
{ unimplemented!() }
pub struct Session { pub ghost scheme: Seq<u8>, pub ghost hb: Option<(u64, u64)>, pub ghost preamble: Option<Seq<u8>> }
impl Session {
    #[verifier::external_body]
    pub fn new_client(r: RdHalf, w: WrHalf, padding: Arc<PaddingFactory>, hb: Option<SessionHeartbeatConfig>) -> (s: Session)
        ensures s.scheme == padding.raw, s.preamble == w.preamble_scheme, s.hb == (match hb { Some(c) => Some((c.interval.s, c.timeout.s)), None => None::<(u64, u64)> })
    { unimplemented!() }
}

// ---- the tail of create_new_session: numbering, start, hand-over to the pool (TRUSTED views; effect log) ----
pub enum NsEv { Numbered { seq: u64 }, Started, Pooled }
pub struct SessionT { pub _p: () }
impl Clone for SessionT { #[verifier::external_body] fn clone(&self) -> (r: Self) { unimplemented!() } }
impl SessionT {
    #[verifier::external_body] pub fn set_seq(&self, seq: u64, fx: &mut Ghost<Seq<NsEv>>) ensures final(fx)@ == old(fx)@.push(NsEv::Numbered { seq }) { }
    // Session::start_client: queues the client's Settings frame (buffered: it will be the first frame on the wire) and starts the loops
    #[verifier::external_body] pub fn start_client(self: Arc<Self>, fx: &mut Ghost<Seq<NsEv>>) -> (r: Result<()>)
        ensures r is Ok ==> final(fx)@ == old(fx)@.push(NsEv::Started), r is Err ==> final(fx)@ == old(fx)@
    { unimplemented!() }
}
pub struct PoolT { pub _p: () }
impl PoolT {
    // SessionPool::add_idle_session (group `pool`): from here on other callers can take the session
    #[verifier::external_body] pub fn add_idle_session(&self, s: Arc<SessionT>, fx: &mut Ghost<Seq<NsEv>>) ensures final(fx)@ == old(fx)@.push(NsEv::Pooled) { }
}
pub struct AtomicU64 { pub v: u64 }
impl AtomicU64 { #[verifier::external_body] pub fn fetch_add(&self, n: u64, o: std::sync::atomic::Ordering, fx: &mut Ghost<Seq<NsEv>>) -> (r: u64) ensures final(fx)@ == old(fx)@ { unimplemented!() } }
