// ---- shim maperr: `.map_err(closure)` as an opaque error mapping (rule R) ----
pub trait VxMapErr<T> { fn vx_map_err(self) -> Result<T>; }
impl<T, E> VxMapErr<T> for std::result::Result<T, E> {
    // .map_err(closure building an AnyTlsError): keeps the Ok payload, the error value is opaque
    #[verifier::external_body]
    fn vx_map_err(self) -> (r: Result<T>)
        ensures self is Ok ==> r is Ok && r->Ok_0 == self->Ok_0, self is Err ==> r is Err
    { unimplemented!() }
}
