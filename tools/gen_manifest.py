#!/usr/bin/env python3
"""Regenerate /verif/MANIFEST.json from props/*.json and props/not_applicable.json"""
import json, os, glob
ROOT = os.path.dirname(os.path.dirname(os.path.abspath(__file__)))
props = [json.loads(l) for l in open(os.path.join(ROOT, "properties.jsonl"))]
na = json.load(open(os.path.join(ROOT, "props", "not_applicable.json")))
checks = []
claimed = set()
for p in props:
    f = os.path.join(ROOT, "props", p["id"] + ".json")
    if not os.path.exists(f):
        continue
    d = json.load(open(f))
    if d.get("disabled"):
        continue
    claimed.add(p["id"])
    checks.append({
        "property_id": p["id"],
        "quick_cmd": f"./check {p['id']} --tier quick",
        "thorough_cmd": f"./check {p['id']} --tier thorough",
        "evidence_file": f"/verif/evidence/{p['id']}.json",
        "replay_cmd_template": "cat {path}",
        "engine": "vx-verus",
        "level_claimed": {"category": "proof", "text": d["level_text"], "design_ref": d.get("design_ref", "DESIGN.md section 5 / " + p["id"])},
        "level_note": d["level_note"],
        "technique": d.get("technique", "contract-based deductive verification: Verus (Z3) on functions extracted mechanically from /repo on every run"),
    })
m = {
    "version": 1,
    "setup_cmd": "sh -c 'verus --version >/dev/null && python3 -c \"import json\" && mkdir -p /verif/build /verif/evidence'",
    "hooks": {"guard": "verif-hooks", "enable": "cargo build --features verif-hooks (only the replay crate needs it; the Verus route reads source text and needs no hook)",
              "baseline_off_cmd": "cd /repo && cargo test --workspace --no-fail-fast --offline",
              "source_commits": json.load(open(os.path.join(ROOT, "props", "hooks.json")))["source_commits"] if os.path.exists(os.path.join(ROOT, "props", "hooks.json")) else [],
              "add_only": True},
    "engines": [{"name": "vx-verus", "path": "/verif/tools/vx", "serves_properties": sorted(claimed),
                 "kind_free_text": "extractor (closed list of audited edits) + contract injection + Verus 0.2026.09.13 / Z3; obligations mapped back from Verus diagnostics"}],
    "checks": checks,
    "not_applicable": [{"property_id": p["id"], "reason": na.get(p["id"], "check not built yet (framework under construction; DESIGN.md section 9)")} for p in props if p["id"] not in claimed],
    "notes": "exit 2 of a check means UNDECIDED (lost anchor, unsupported construct, solver limit, vacuity guard) and is never accompanied by a VIOLATION line; see DESIGN.md 2.1",
}
json.dump(m, open(os.path.join(ROOT, "MANIFEST.json"), "w"), indent=1)
print("claimed:", sorted(claimed))
