// ---- shim certan_env: time as util/cert_analyzer.rs uses it (TRUSTED) ----
// wall-clock instants and durations in whole nanoseconds
#[derive(Clone, Copy)]
pub struct SystemTime { pub ns: u128 }
#[derive(Debug)]
pub struct SystemTimeError;
#[derive(Clone, Copy)]
pub struct Duration { pub ns: u128 }
impl SystemTime {
    // self - earlier; Err when `earlier` is later than self
    #[verifier::external_body]
    pub fn duration_since(&self, earlier: SystemTime) -> (r: std::result::Result<Duration, SystemTimeError>)
        ensures self.ns >= earlier.ns ==> r is Ok && r->Ok_0.ns == self.ns - earlier.ns, self.ns < earlier.ns ==> r is Err
    { unimplemented!() }
}
impl Duration {
    #[verifier::external_body]
    pub fn as_secs(&self) -> (r: u64)
        requires self.ns / 1_000_000_000 <= u64::MAX,
        ensures r == self.ns / 1_000_000_000
    { unimplemented!() }
}
// the fields of CertificateInfo that the expiry predicates read
pub struct CertificateInfo { pub days_until_expiry: i64 }
