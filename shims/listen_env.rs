// ---- shim listen_env: what Server::listen refers to (TRUSTED) ----
pub use std::sync::Arc;
pub struct StringMap { pub _p: () }
impl Clone for StringMap { #[verifier::external_body] fn clone(&self) -> (r: Self) { unimplemented!() } }
pub struct PaddingFactory { pub _p: () }
pub struct TlsAcceptor { pub ghost cfg: int }
pub struct Callback { pub _p: () }
pub struct TcpStream { pub ghost conn: int }
pub struct SocketAddr { pub _p: () }
// the fields of Server that listen reads; tls_config (Arc<RwLock<Arc<TlsAcceptor>>>) is hoisted into ListenState
pub struct Server { pub password_hash: [u8; 32], pub padding: Arc<PaddingFactory>, pub on_new_stream: Option<Arc<Callback>>, pub server_settings: Option<StringMap> }
pub enum LEv { Served { conn: int, with_cfg: int, current_cfg: int } }
// the shared acceptor cell: `tls_config` is its content NOW; a concurrent CertReloader::reload may replace it while
// listen is blocked in accept(), so accept() leaves it arbitrary
pub struct ListenState { pub tls_config: Arc<TlsAcceptor>, pub fx: Ghost<Seq<LEv>> }
pub struct TcpListener { pub _p: () }
impl TcpListener {
    #[verifier::external_body] pub fn bind(addr: &str) -> (r: io::Result<TcpListener>) { unimplemented!() }
    #[verifier::external_body]
    pub fn accept(&self, st: &mut ListenState) -> (r: io::Result<(TcpStream, SocketAddr)>)
        ensures final(st).fx@ == old(st).fx@      // final(st).tls_config: arbitrary
    { unimplemented!() }
}
// the per-connection handler: records which configuration the connection was handed and which one was current then
#[verifier::external_body]
pub fn handle_connection(tcp_stream: TcpStream, tls_config: Arc<TlsAcceptor>, password_hash: [u8; 32], padding: Arc<PaddingFactory>,
        on_new_stream: Option<Arc<Callback>>, server_settings: Option<StringMap>, st: &mut ListenState) -> (r: Result<()>)
    ensures final(st).tls_config == old(st).tls_config,
        final(st).fx@ == old(st).fx@.push(LEv::Served { conn: tcp_stream.conn, with_cfg: tls_config.cfg, current_cfg: old(st).tls_config.cfg })
{ unimplemented!() }
pub open spec fn served_current(l: Seq<LEv>) -> bool {
    forall|i: int| 0 <= i < l.len() ==> (#[trigger] l[i])->with_cfg == l[i]->current_cfg
}
