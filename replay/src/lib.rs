// see tests/
