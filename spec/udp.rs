// ---- spec udp: length-prefixed datagram framing (C15) ----
pub open spec fn udp_enc(p: Seq<u8>) -> Seq<u8> recommends p.len() <= 65535 { be16(p.len() as u16) + p }
// one datagram off the front of the tunnel's byte stream; None = incomplete
pub open spec fn udp_step(s: Seq<u8>) -> Option<(Seq<u8>, Seq<u8>)> {
    if s.len() < 2 { None } else { let n = de16(s.subrange(0, 2)) as int; if s.len() < 2 + n { None } else { Some((s.subrange(2, 2 + n), s.subrange(2 + n, s.len() as int))) } }
}
// boundaries and contents survive: encoding a datagram and decoding from the stream gives back exactly it and exactly the rest
pub proof fn lemma_udp_roundtrip(p: Seq<u8>, rest: Seq<u8>)
    requires p.len() <= 65535
    ensures udp_step(udp_enc(p) + rest) == Some((p, rest))
{
    let s = udp_enc(p) + rest;
    lemma_be16(p.len() as u16);
    assert(s.subrange(0, 2) =~= be16(p.len() as u16));
    assert(s.subrange(2, 2 + p.len() as int) =~= p);
    assert(s.subrange(2 + p.len() as int, s.len() as int) =~= rest);
}
// a sequence of datagrams: never merged, split, reordered
pub open spec fn udp_enc_all(ps: Seq<Seq<u8>>) -> Seq<u8> decreases ps.len()
{ if ps.len() == 0 { Seq::empty() } else { udp_enc(ps[0]) + udp_enc_all(ps.drop_first()) } }
pub open spec fn udp_dec_all(s: Seq<u8>) -> (Seq<Seq<u8>>, Seq<u8>) decreases s.len()
{ match udp_step(s) { None => (Seq::empty(), s), Some((p, r)) => { let d = udp_dec_all(r); (seq![p] + d.0, d.1) } } }
pub proof fn lemma_udp_sequence(ps: Seq<Seq<u8>>)
    requires forall|i: int| 0 <= i < ps.len() ==> (#[trigger] ps[i]).len() <= 65535
    ensures udp_dec_all(udp_enc_all(ps)) == (ps, Seq::<u8>::empty())
    decreases ps.len()
{
    if ps.len() == 0 { }
    else {
        let tl = ps.drop_first();
        assert forall|i: int| 0 <= i < tl.len() implies (#[trigger] tl[i]).len() <= 65535 by { assert(tl[i] == ps[i + 1]); }
        lemma_udp_sequence(tl);
        lemma_udp_roundtrip(ps[0], udp_enc_all(tl));
        assert(seq![ps[0]] + tl =~= ps);
    }
}
pub proof fn lemma_udp_enc_all_push(ps: Seq<Seq<u8>>, d: Seq<u8>)
    ensures udp_enc_all(ps.push(d)) == udp_enc_all(ps) + udp_enc(d)
    decreases ps.len()
{
    reveal_with_fuel(udp_enc_all, 3);
    if ps.len() == 0 {
        assert(ps.push(d)[0] == d);
        assert(udp_enc_all(Seq::<Seq<u8>>::empty()) =~= Seq::<u8>::empty());
        assert(ps.push(d).drop_first() =~= Seq::<Seq<u8>>::empty());
        assert(udp_enc_all(ps.push(d)) =~= udp_enc(d) + Seq::<u8>::empty());
        assert(udp_enc_all(ps) + udp_enc(d) =~= udp_enc(d));
    } else {
        lemma_udp_enc_all_push(ps.drop_first(), d);
        assert(ps.push(d).drop_first() =~= ps.drop_first().push(d));
        assert(ps.push(d)[0] == ps[0]);
        assert(udp_enc_all(ps.push(d)) == udp_enc(ps[0]) + udp_enc_all(ps.drop_first().push(d)));
        assert(udp_enc_all(ps) == udp_enc(ps[0]) + udp_enc_all(ps.drop_first()));
        assert(udp_enc(ps[0]) + (udp_enc_all(ps.drop_first()) + udp_enc(d)) =~= (udp_enc(ps[0]) + udp_enc_all(ps.drop_first())) + udp_enc(d));
    }
}
// the datagrams delivered when the first k records of ds are each sent to address a
pub open spec fn delivered(ds: Seq<Seq<u8>>, k: int, a: int) -> Seq<(Seq<u8>, int)> { Seq::new(k as nat, |i: int| (ds[i], a)) }
pub proof fn lemma_dec_all_step(s: Seq<u8>)
    ensures udp_step(s) is None ==> udp_dec_all(s).0.len() == 0,
            udp_step(s) is Some ==> udp_dec_all(s).0.len() > 0 && udp_dec_all(s).0[0] == udp_step(s)->Some_0.0
                && udp_dec_all(s).0.drop_first() == udp_dec_all(udp_step(s)->Some_0.1).0
{
    if udp_step(s) is Some {
        let p = udp_step(s)->Some_0.0; let r = udp_step(s)->Some_0.1; let d = udp_dec_all(r);
        assert(udp_dec_all(s).0 == seq![p] + d.0);
        assert((seq![p] + d.0).drop_first() =~= d.0);
    }
}
