// ---- spec socks: the SOCKS-style destination header  ATYP | ADDR | PORT  as mathematics ----
pub ghost struct Dest { pub atyp: u8, pub host: Seq<char>, pub port: u16 }
// decoder: None = malformed or truncated; Some((destination, rest))
pub open spec fn socks_parse(p: Seq<u8>) -> Option<(Dest, Seq<u8>)> {
    if p.len() < 1 { None }
    else if p[0] == 1u8 { if p.len() >= 7 { Some((Dest { atyp: 1, host: ip4_display(p.subrange(1, 5)), port: de16(p.subrange(5, 7)) }, p.subrange(7, p.len() as int))) } else { None } }
    else if p[0] == 4u8 { if p.len() >= 19 { Some((Dest { atyp: 4, host: ip6_display(p.subrange(1, 17)), port: de16(p.subrange(17, 19)) }, p.subrange(19, p.len() as int))) } else { None } }
    else if p[0] == 3u8 {
        if p.len() < 2 { None } else {
            let n = p[1] as int;
            if n == 0 || p.len() < 2 + n + 2 || !valid_utf8(p.subrange(2, 2 + n)) { None }
            else { Some((Dest { atyp: 3, host: utf8_decode(p.subrange(2, 2 + n)), port: de16(p.subrange(2 + n, 4 + n)) }, p.subrange(4 + n, p.len() as int))) }
        }
    }
    else { None }
}
// how many bytes a well-formed header occupies
pub open spec fn socks_len(p: Seq<u8>) -> int { if p[0] == 1u8 { 7 } else if p[0] == 4u8 { 19 } else { 4 + p[1] as int } }
pub broadcast proof fn lemma_sub_sub(s: Seq<u8>, a: int, b: int, c: int, d: int)
    requires 0 <= a <= b <= s.len(), 0 <= c <= d <= b - a
    ensures #[trigger] s.subrange(a, b).subrange(c, d) == s.subrange(a + c, a + d)
{ assert(s.subrange(a, b).subrange(c, d) =~= s.subrange(a + c, a + d)); }
