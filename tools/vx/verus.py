"""Run Verus on an assembled group file and map its diagnostics to obligations."""
import json
import os
import re
import subprocess
import time

VERIFICATION_FAILURES = [
    r"^postcondition not satisfied", r"^precondition not satisfied", r"^assertion failed",
    r"^invariant not satisfied", r"^loop invariant not satisfied", r"^loop ensures not satisfied",
    r"^possible arithmetic underflow/overflow", r"^possible division by zero",
    r"^possible bit shift underflow/overflow", r"^decreases not satisfied", r"^could not prove termination",
    r"^constructed value may fail to meet its declared type invariant",
    r"^assert_by|^requires not satisfied|^unable to prove assertion",
    r"^possible truncation", r"^call to nonterminating|^possible (panic|unwrap)",
    r"^cannot show .* holds", r"^termination|^failed loop ensures", r"^recommendation not met",
]
VF = re.compile("|".join(VERIFICATION_FAILURES), re.I)
RLIMIT = re.compile(r"resource limit|rlimit|timed out|timeout", re.I)
IGNORE = re.compile(r"aborting due to|^\d+ warnings? emitted|verification results", re.I)


def run_verus(path, rlimit=None, seed=None, threads=None, timeout=900, extra=None, multiple_errors=50):
    cmd = ["verus", path, "--output-json", "--time", "--multiple-errors", str(multiple_errors), "--error-format=json"]
    if rlimit:
        cmd += ["--rlimit", str(rlimit)]
    if threads:
        cmd += ["--num-threads", str(threads)]
    if seed is not None:
        cmd += ["-V", f"smt-option=smt.random_seed={seed}", "-V", f"smt-option=sat.random_seed={seed}"] if False else []
    if extra:
        cmd += extra
    t0 = time.time()
    env = dict(os.environ)
    try:
        p = subprocess.run(cmd, capture_output=True, text=True, timeout=timeout, env=env, cwd=os.path.dirname(path))
        rc, out, err = p.returncode, p.stdout, p.stderr
    except subprocess.TimeoutExpired as e:
        rc, out, err = -9, (e.stdout or b"").decode() if isinstance(e.stdout, bytes) else (e.stdout or ""), "TIMEOUT"
    wall = time.time() - t0
    res = {"cmd": " ".join(cmd), "rc": rc, "wall_s": wall, "diags": [], "json": None, "raw_err": err[-20000:]}
    try:
        res["json"] = json.loads(out)
    except Exception:
        res["json"] = None
    for ln in err.splitlines():
        ln = ln.strip()
        if not ln.startswith("{"):
            continue
        try:
            d = json.loads(ln)
        except Exception:
            continue
        if d.get("$message_type") != "diagnostic":
            continue
        res["diags"].append(d)
    return res


def classify(res, linemap, fname):
    """-> dict(failed: {oid: [msgs]}, infra: [msgs], rlimit: [oids], fn_times: {...})"""
    lines = linemap["lines"]
    failed, infra, rl, artifact = {}, [], {}, {}
    infra_injected = set()      # (unit, fn): a rustc / Verus infrastructure error located in INJECTED text of that function
    base = os.path.basename(fname)
    for d in res["diags"]:
        lvl = d.get("level")
        msg = d.get("message", "")
        if lvl not in ("error",):
            continue
        if IGNORE.search(msg):
            continue
        spans = [s for s in d.get("spans", []) if os.path.basename(s.get("file_name", "")) == base]
        prim = [s for s in spans if s.get("is_primary")] or spans
        is_rl = bool(RLIMIT.search(msg))
        is_vf = bool(VF.search(msg)) and not is_rl
        if not prim:
            infra.append(msg)
            continue
        # postcondition: the clause span is the one labelled "failed this postcondition"
        target = None
        for s in spans:
            if (s.get("label") or "").startswith("failed this postcondition"):
                target = s
            # an invariant that fails at a `break` / loop exit: the primary span is the exit, the clause is the labelled span
            if (s.get("label") or "").startswith("failed this invariant"):
                target = s
        if target is None:
            target = prim[0]
        ln = target["line_start"]
        ent = lines[ln] if ln < len(lines) else None
        rendered = d.get("rendered", msg)
        if ent is None or ent["kind"] == "shim":
            # an error located in a shim: if it is a failed precondition the call site is primary, so this is infra
            infra.append(f"{msg} @ line {ln}")
            continue
        if ent["kind"] == "unit":
            tag = ent.get("tag")
            # precondition failure: primary = call site (body)
            oid = f"{ent['name']}.{ent['fn']}.{tag or 'body'}"
            # a failure located in UNTAGGED injected proof text (hint assert, lemma call, plumbing invariant) is a proof
            # artifact: it says the proof as written no longer goes through, not which program obligation is violated
            if ent.get("injected") and not tag and is_vf:
                artifact.setdefault(f"{ent['name']}.{ent['fn']}", []).append(rendered)
                continue
        else:
            if ent.get("fn") is None:
                infra.append(f"{msg} @ spec line {ln}")
                continue
            oid = f"spec.{ent['name']}.{ent['fn']}"
        if is_rl:
            rl.setdefault(oid, []).append(rendered)
        elif is_vf:
            failed.setdefault(oid, []).append(rendered)
        else:
            infra.append(f"{msg} @ line {ln} ({oid})")
            if ent["kind"] == "unit" and (ent.get("injected") or ent.get("contract")) and ent.get("fn"):
                infra_injected.add((ent["name"], ent["fn"]))
    if res["rc"] == -9:
        infra.append("verus timed out")
    if "panicked at" in res["raw_err"] or "internal compiler error" in res["raw_err"]:
        m = re.search(r"panicked at [^\n]*\n[^\n]*", res["raw_err"])
        infra.append("verus crashed (unsupported construct): " + (m.group(0).replace("\n", " ") if m else "panic"))
    vr = (res["json"] or {}).get("verification-results", {})
    if res["json"] is not None and not vr.get("success", False) and not failed and not infra and not rl and not artifact:
        infra.append("verus reported failure without a classifiable diagnostic: " + res["raw_err"][-300:].replace("\n", " "))
    if res["json"] is not None and vr.get("success", False) and vr.get("verified", 0) == 0:
        infra.append("verus verified 0 functions")
    if res["json"] is None and not failed and not infra:
        infra.append("verus produced no JSON result: " + res["raw_err"][-400:])
    return {"failed": failed, "infra": infra, "rlimit": rl, "artifact": artifact, "infra_injected": infra_injected}


def fn_times(res):
    out = {}
    j = res.get("json") or {}
    try:
        for m in j["times-ms"]["smt"]["smt-run-module-times"]:
            for f in m.get("function-breakdown", []):
                out[f["function"]] = {"ms": f["time"], "rlimit": f["rlimit"], "success": f["success"], "mode": f.get("mode:")}
    except Exception:
        pass
    return out
