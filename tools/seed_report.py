#!/usr/bin/env python3
"""Run every kept seed (/verif/seeded/<id>/patch.diff) against the check(s) of its property; record what happened.
Usage: tools/seed_report.py [extra-property-per-seed json]   -> seeded/RESULTS.json, seeded/RESULTS.md"""
import json, os, subprocess, glob, re, sys
ROOT = os.path.dirname(os.path.dirname(os.path.abspath(__file__)))
# SEED_REPO: a scratch worktree of /repo to apply the patches to (the checks then read it through VERIF_REPO); default /repo itself
REPO = os.environ.get("SEED_REPO", "/repo")
ENV = dict(os.environ, VERIF_REPO=REPO) if REPO != "/repo" else dict(os.environ)
EXTRA = {"C09-I": ["C14"], "C15-I": ["C01"], "C16-I": ["C07"], "C04-B": ["C20"], "C20-B": ["C09"], "C01-A": ["C03"], "C03-B": ["C01"], "C01-F": ["C02"], "C01-E": ["C04"], "C15-E": ["C01"], "C10-D": ["C09"], "C02-D": ["C03"], "C19-F": ["C02"]}
ONLY = set(sys.argv[1:])          # optional: seed names to (re)run; the other rows are kept from the last report
res = {}
if ONLY and os.path.exists(os.path.join(ROOT, "seeded", "RESULTS.json")):
    res = json.load(open(os.path.join(ROOT, "seeded", "RESULTS.json")))
for d in sorted(glob.glob(os.path.join(ROOT, "seeded", "C*-*"))):
    name = os.path.basename(d)
    if ONLY and name not in ONLY:
        continue
    meta = json.load(open(os.path.join(d, "meta.json")))
    props = [meta["property"]] + EXTRA.get(name, [])
    subprocess.run(["git", "-C", REPO, "checkout", "--", "."], check=True)
    ap = subprocess.run(["git", "-C", REPO, "apply", os.path.join(d, "patch.diff")], capture_output=True, text=True)
    if ap.returncode != 0:
        res[name] = {"outcome": "patch does not apply to the current tree", "props": props}
        continue
    out = {}
    try:
        for p in props:
            r = subprocess.run([os.path.join(ROOT, "check"), p], capture_output=True, text=True, cwd=ROOT, env=ENV)
            viol = re.findall(r"^VIOLATION property=\S+ replay=\S+ obligation=(\S+)", r.stdout, re.M)
            und = re.findall(r"^UNDECIDED property=\S+: (.*)$", r.stdout, re.M)
            out[p] = {"rc": r.returncode, "violations": viol, "undecided": [u[:160] for u in und[:2]]}
    finally:
        subprocess.run(["git", "-C", REPO, "checkout", "--", "."], check=True)
    caught = [p for p, v in out.items() if v["rc"] == 1]
    und = [p for p, v in out.items() if v["rc"] == 2]
    outcome = "CAUGHT" if caught else ("UNDECIDED (exit 2)" if und else "missed (check passes)")
    res[name] = {"outcome": outcome, "checks": out, "summary": meta.get("summary", "")[:300], "needs": meta.get("needs", "")[:300]}
    meta["detection"] = {"outcome": outcome, "checks": out}
    json.dump(meta, open(os.path.join(d, "meta.json"), "w"), indent=1)
    print(name, outcome, {p: v["violations"][:2] for p, v in out.items()})
json.dump(res, open(os.path.join(ROOT, "seeded", "RESULTS.json"), "w"), indent=1)
lines = ["| seed | what it changes | outcome | failing obligations / reason |", "|---|---|---|---|"]
for n, r in sorted(res.items()):
    det = ""
    if "checks" in r:
        for p, v in r["checks"].items():
            if v["violations"]:
                det += f"{p}: " + ", ".join("`" + x.split(".", 1)[1] + "`" for x in v["violations"][:3]) + ("…" if len(v["violations"]) > 3 else "") + " "
            elif v["undecided"]:
                det += f"{p}: {v['undecided'][0][:110]} "
    summ = " ".join(r.get("summary", "").split())[:150]
    lines.append(f"| {n} | {summ} | {r['outcome']} | {det.strip()} |")
open(os.path.join(ROOT, "seeded", "RESULTS.md"), "w").write("\n".join(lines) + "\n")
c = sum(1 for r in res.values() if r["outcome"] == "CAUGHT")
print(f"{c} of {len(res)} caught")
# evidence files were overwritten by runs on modified trees: rewrite them from the unchanged tree
touched = {p for n, r in res.items() if (not ONLY or n in ONLY) for p in r.get("checks", {})}
for f in sorted(glob.glob(os.path.join(ROOT, "props", "C*.json"))):
    pid = os.path.basename(f)[:-5]
    if ONLY and pid not in touched:
        continue
    subprocess.run([os.path.join(ROOT, "check"), pid], capture_output=True, text=True, cwd=ROOT, env=ENV)
