#!/bin/bash
# tools/confirm_seed.sh <seed-name> <patch.diff> <demo_test.rs> <property> <orig meta.json>
# Confirms in a scratch worktree (/tmp/seed/port, a worktree of /repo HEAD) that the patch compiles, passes the
# existing suite, and that the demonstration fails with it and passes without it; stores the seed under /verif/seeded/<name>/.
set -u
NAME="$1"; PATCH="$2"; DEMO="$3"; PROP="$4"; META="$5"
WT=${SEED_WT:-/tmp/seed/port}
OUT=/verif/seeded/$NAME
cd $WT && git checkout -q -- . && git clean -fdq -e target
git apply "$PATCH" || { echo "$NAME: PATCH DOES NOT APPLY"; exit 1; }
SUITE=$(timeout 900 cargo test --workspace --no-fail-fast --offline 2>&1 | grep -E "^test result" | awk '{p+=$4; f+=$6} END {print p" passed "f" failed"}')
# one test of the suite binds a fixed port (8443): when other suites run on this machine at the same time it can lose that test;
# a result other than 73/0 is therefore taken again, up to twice, before it counts
for TRY in 1 2; do
  case "$SUITE" in "73 passed 0 failed") break;; esac
  sleep $((RANDOM % 20 + 5))
  SUITE=$(timeout 900 cargo test --workspace --no-fail-fast --offline 2>&1 | grep -E "^test result" | awk '{p+=$4; f+=$6} END {print p" passed "f" failed"}')
done
cp "$DEMO" tests/vx_demo_test.rs
WITH=$(timeout 240 cargo test --offline --test vx_demo_test 2>&1 | grep -E "^test result" | head -1); [ -z "$WITH" ] && WITH="test result: FAILED (no result within 240 s: hang or build error)"
git checkout -q -- . 
WITHOUT=$(timeout 240 cargo test --offline --test vx_demo_test 2>&1 | grep -E "^test result" | head -1)
rm -f tests/vx_demo_test.rs
echo "$NAME: suite with patch: $SUITE | demo with patch: $WITH | demo without: $WITHOUT"
case "$SUITE" in "73 passed 0 failed") ;; *) echo "$NAME: REJECTED (suite)"; exit 2;; esac
case "$WITH" in *FAILED*) ;; *) echo "$NAME: REJECTED (demo does not fail with patch)"; exit 2;; esac
case "$WITHOUT" in *"test result: ok"*) ;; *) echo "$NAME: REJECTED (demo does not pass without patch)"; exit 2;; esac
mkdir -p $OUT && cp "$PATCH" $OUT/patch.diff && cp "$DEMO" $OUT/demo_test.rs
python3 - "$NAME" "$PROP" "$META" "$SUITE" "$WITH" "$WITHOUT" <<'PY'
import json,sys
name,prop,meta,suite,w,wo=sys.argv[1:7]
try: m=json.load(open(meta))
except Exception: m={}
out={"property":prop,"summary":m.get("summary",""),"needs":m.get("needs",""),"files":m.get("files",[]),
     "source":"independent sub-agent given only the property text and a scratch worktree (ported by hand to the fixed tree where the fix: commits touched the same lines)",
     "confirmed":{"base":"/repo HEAD at confirmation time","existing_suite_with_patch":suite,"demo_with_patch":w,"demo_without_patch":wo,
                  "how":"tools/confirm_seed.sh in scratch worktree /tmp/seed/port: git apply; cargo test --workspace --no-fail-fast --offline; cargo test --test vx_demo_test with and without the patch"}}
json.dump(out,open(f"/verif/seeded/{name}/meta.json","w"),indent=1)
PY
echo "$NAME: KEPT"
