//! F-C19-a  factory.update_default.pushed_scheme_becomes_the_default_for_every_history
//! history: the built-in default scheme has been used (PaddingFactory::default()) before the server pushes a scheme
use anytls_rs::padding::PaddingFactory;

#[test]
fn f_c19_a_pushed_scheme_is_adopted_after_the_default_was_used() {
    let before = PaddingFactory::default().md5().to_string();
    let pushed = b"stop=2\n0=10-10\n1=20-20";
    let r = PaddingFactory::update_default(pushed);
    assert!(r.is_ok(), "update_default after default() failed: {:?} (the default cell is write-once)", r);
    let after = PaddingFactory::default();
    assert_ne!(after.md5(), before, "the default scheme did not change");
    assert_eq!(after.raw_scheme(), pushed);
    // and a second push works too
    let pushed2 = b"stop=3\n0=11-11";
    PaddingFactory::update_default(pushed2).unwrap();
    assert_eq!(PaddingFactory::default().raw_scheme(), pushed2);
}
