// ---- shim srvctor_env: what the constructors of Server refer to (TRUSTED) ----
pub use std::sync::Arc;
pub struct StringMap { pub _p: () }
pub struct PaddingFactory { pub _p: () }
pub struct TlsAcceptor { pub ghost cfg: int }
pub struct Callback { pub _p: () }
// a lock object has an identity (`cell`): two Arcs point to the same lock iff their cells are equal; RwLock::new makes a NEW lock,
// about whose identity nothing is known
pub struct RwLock<T> { pub ghost cell: int, pub v: T }
impl<T> RwLock<T> { #[verifier::external_body] pub fn new(v: T) -> (r: RwLock<T>) ensures r.v == v { unimplemented!() } }
#[verifier::external_body] pub fn hash_password(password: &str) -> (r: [u8; 32]) { unimplemented!() }
// the fields of Server (on_new_stream: the callback type is opaque here)
pub struct Server { pub password_hash: [u8; 32], pub tls_config: Arc<RwLock<Arc<TlsAcceptor>>>, pub padding: Arc<PaddingFactory>, pub on_new_stream: Option<Arc<Callback>>, pub server_settings: Option<StringMap> }
// reading the lock: a guard on the content; `.clone()` on the guard clones the content (auto-deref in the source)
pub struct ReadRes<T> { pub v: T }
pub struct ReadGuard<T> { pub v: T }
impl RwLock<Arc<TlsAcceptor>> { #[verifier::external_body] pub fn read(&self) -> (r: ReadRes<Arc<TlsAcceptor>>) ensures r.v == self.v { unimplemented!() } }
impl ReadRes<Arc<TlsAcceptor>> { #[verifier::external_body] pub fn unwrap(self) -> (r: ReadGuard<Arc<TlsAcceptor>>) ensures r.v == self.v { unimplemented!() } }
impl ReadGuard<Arc<TlsAcceptor>> { #[verifier::external_body] pub fn clone(&self) -> (r: Arc<TlsAcceptor>) ensures r == self.v { unimplemented!() } }
