//! F-C14-a (repaired): the liveness monitor closed healthy sessions when the timeout was shorter than the probe interval.
//! The pair is now refused where it enters the program (SessionPoolConfig::validate, called by the client binary); for the
//! accepted pairs a peer that answers every probe keeps its session.
use anytls_rs::client::SessionPoolConfig;
use anytls_rs::padding::PaddingFactory;
use anytls_rs::session::Session;
use std::sync::Arc;
use std::time::Duration;

fn pf() -> Arc<PaddingFactory> { Arc::new(PaddingFactory::new(anytls_rs::padding::DEFAULT_PADDING_SCHEME.as_bytes()).unwrap()) }

async fn healthy_pair(interval_ms: u64, timeout_ms: u64) -> (Arc<Session>, Arc<Session>) {
    use anytls_rs::session::SessionHeartbeatConfig;
    let (a, b) = tokio::io::duplex(1 << 20);
    let (ar, aw) = tokio::io::split(a);
    let (br, bw) = tokio::io::split(b);
    let client = Arc::new(Session::new_client(ar, aw, pf(), Some(SessionHeartbeatConfig { interval: Duration::from_millis(interval_ms), timeout: Duration::from_millis(timeout_ms) })));
    let server = Arc::new(Session::new_server(br, bw, pf()));
    let s2 = server.clone();
    tokio::spawn(async move { let _ = s2.recv_loop().await; });
    let s3 = server.clone();
    tokio::spawn(async move { let _ = s3.process_stream_data().await; });
    client.clone().start_client().await.unwrap();
    client.disable_buffering();   // as create_proxy_stream does right after opening the first stream
    (client, server)
}

#[tokio::test]
async fn f_c14_a_pairs_that_would_close_healthy_sessions_are_refused_and_accepted_pairs_keep_them() {
    // the witness of the finding (interval 400 ms, timeout 100 ms) can no longer enter the program
    let bad = SessionPoolConfig { check_interval: Duration::from_millis(400), idle_timeout: Duration::from_millis(100), min_idle_sessions: 1 };
    assert!(bad.validate().is_err(), "a timeout shorter than the probe interval was accepted");
    // accepted pairs, including timeout == interval: a peer that answers every probe at once keeps its session
    for (i, t) in [(100u64, 400u64), (200, 200)] {
        let ok = SessionPoolConfig { check_interval: Duration::from_millis(i), idle_timeout: Duration::from_millis(t), min_idle_sessions: 1 };
        assert!(ok.validate().is_ok());
        let (c, s) = healthy_pair(i, t).await;
        tokio::time::sleep(Duration::from_millis(1300)).await;
        assert!(!c.is_closed() && !s.is_closed(), "a healthy session was closed by the liveness monitor (interval {i} ms, timeout {t} ms)");
    }
}

/// F-C14-b (repaired): with the timeout equal to the interval the last answer is about one interval old at the next tick, so a
/// tick that fired a little late closed a session whose peer had answered every request. The monitor now asks whether its most
/// recent request is still unanswered; that also keeps healthy sessions of library users whose timeout is shorter than the interval.
#[tokio::test]
async fn f_c14_b_a_late_tick_does_not_count_against_a_peer_that_answered_every_request() {
    for (i, t) in [(200u64, 200u64), (150, 150), (400, 100)] {
        let (c, s) = healthy_pair(i, t).await;
        tokio::time::sleep(Duration::from_millis(1300)).await;
        assert!(!c.is_closed() && !s.is_closed(), "a healthy session was closed by the liveness monitor (interval {i} ms, timeout {t} ms)");
    }
}

/// second half of the property on the repaired monitor: a peer that never answers is given up within timeout + one interval
/// (plus scheduling slack) of the last answer - here the session's creation, which is what the liveness instant starts from
#[tokio::test]
async fn f_c14_b_a_silent_peer_is_still_given_up_within_timeout_plus_one_interval() {
    use anytls_rs::session::SessionHeartbeatConfig;
    use tokio::io::AsyncReadExt;
    for (i, t) in [(100u64, 300u64), (200, 200)] {
        let (a, b) = tokio::io::duplex(1 << 20);
        let (ar, aw) = tokio::io::split(a);
        let (mut br, _bw) = tokio::io::split(b);
        tokio::spawn(async move { let mut sink = [0u8; 4096]; while let Ok(n) = br.read(&mut sink).await { if n == 0 { break; } } });
        let t0 = std::time::Instant::now();
        let client = Arc::new(Session::new_client(ar, aw, pf(), Some(SessionHeartbeatConfig { interval: Duration::from_millis(i), timeout: Duration::from_millis(t) })));
        client.clone().start_client().await.unwrap();
        client.disable_buffering();
        let deadline = Duration::from_millis(t + i + 150);
        while !client.is_closed() && t0.elapsed() < deadline + Duration::from_millis(500) { tokio::time::sleep(Duration::from_millis(5)).await; }
        let took = t0.elapsed();
        assert!(client.is_closed(), "a silent peer was never given up (interval {i} ms, timeout {t} ms)");
        assert!(took >= Duration::from_millis(t), "given up after {took:?}, before the timeout of {t} ms had passed");
        assert!(took <= deadline, "a silent peer was given up only after {took:?} (interval {i} ms, timeout {t} ms: bound {deadline:?})");
    }
}

/// a scripted peer on a raw pipe: answers the n-th keep-alive request after `delays_ms[n]` (no answer once the list is exhausted)
async fn scripted_peer(interval_ms: u64, timeout_ms: u64, delays_ms: Vec<u64>) -> (Arc<Session>, std::time::Instant) {
    use anytls_rs::protocol::{Command, Frame, FrameCodec};
    use anytls_rs::session::SessionHeartbeatConfig;
    use tokio::io::{AsyncReadExt, AsyncWriteExt};
    use tokio_util::codec::{Decoder, Encoder};
    let (a, b) = tokio::io::duplex(1 << 20);
    let (ar, aw) = tokio::io::split(a);
    let (mut br, bw) = tokio::io::split(b);
    let bw = Arc::new(tokio::sync::Mutex::new(bw));
    tokio::spawn(async move {
        let mut codec = FrameCodec; let mut buf = bytes::BytesMut::new(); let mut tmp = vec![0u8; 4096]; let mut n_req = 0usize;
        loop {
            match br.read(&mut tmp).await { Ok(0) | Err(_) => break, Ok(n) => buf.extend_from_slice(&tmp[..n]) }
            while let Ok(Some(f)) = codec.decode(&mut buf) {
                if f.cmd == Command::HeartRequest {
                    if let Some(d) = delays_ms.get(n_req).copied() {
                        let bw = bw.clone();
                        tokio::spawn(async move {
                            tokio::time::sleep(Duration::from_millis(d)).await;
                            let mut out = bytes::BytesMut::new();
                            FrameCodec.encode(Frame::control(Command::HeartResponse, 0), &mut out).unwrap();
                            let _ = bw.lock().await.write_all(&out).await;
                        });
                    }
                    n_req += 1;
                }
            }
        }
    });
    let t0 = std::time::Instant::now();
    let client = Arc::new(Session::new_client(ar, aw, pf(), Some(SessionHeartbeatConfig { interval: Duration::from_millis(interval_ms), timeout: Duration::from_millis(timeout_ms) })));
    let c2 = client.clone();
    tokio::spawn(async move { let _ = c2.recv_loop().await; });
    client.clone().start_client().await.unwrap();
    client.disable_buffering();
    (client, t0)
}

/// F-C14-c (repaired): every reply arrives within the timeout, but the reply times vary and some exceed the interval. The
/// monitor that measured from the LAST ANSWER closed such a session (an unanswered request and an old last answer coincide
/// although no request has waited a whole timeout); measuring from the oldest request since which nothing was heard does not.
#[tokio::test]
async fn f_c14_c_replies_within_the_timeout_keep_the_session_however_they_vary() {
    // interval 200 ms, timeout 300 ms; replies after 10, 280, 10, 280, ... ms (all < 300)
    let delays: Vec<u64> = (0..12).map(|k| if k % 2 == 0 { 10 } else { 280 }).collect();
    let (c, _t0) = scripted_peer(200, 300, delays).await;
    tokio::time::sleep(Duration::from_millis(1900)).await;   // 9-10 requests, all answered in time
    assert!(!c.is_closed(), "a session whose peer answered every keep-alive request within the timeout was closed by the liveness monitor");
}

/// ... and the detection bound on the same monitor: the peer answers three requests and falls silent; the session is given up
/// within timeout + one interval of the last answer, for pairs with timeout >, = and < interval (library configuration)
#[tokio::test]
async fn f_c14_c_a_peer_that_falls_silent_after_k_answers_is_given_up_within_the_bound() {
    for (i, t) in [(200u64, 300u64), (200, 200), (300, 150)] {
        let (c, t0) = scripted_peer(i, t, vec![5, 5, 5]).await;
        // requests go out at 0, i, 2i: the last answer arrives at about 2i + 5 ms
        let last_answer = Duration::from_millis(2 * i + 5);
        let bound = last_answer + Duration::from_millis(t + i + 120);
        while !c.is_closed() && t0.elapsed() < bound + Duration::from_millis(600) { tokio::time::sleep(Duration::from_millis(5)).await; }
        let took = t0.elapsed();
        assert!(c.is_closed(), "a peer that fell silent was never given up (interval {i} ms, timeout {t} ms)");
        assert!(took >= last_answer + Duration::from_millis(t), "given up {took:?} after start: less than a timeout ({t} ms) after the last answer");
        assert!(took <= bound, "given up only {took:?} after start (interval {i} ms, timeout {t} ms): later than last answer + timeout + interval");
    }
}
