// ---- shim net_addr: std::net address types and UTF-8 as uninterpreted injective functions (TRUSTED) ----
// std::net address types: textual form is an uninterpreted injective function of the octets (std guarantees parse(display(ip)) == ip)
pub uninterp spec fn ip4_display(o: Seq<u8>) -> Seq<char>;
pub uninterp spec fn ip6_display(o: Seq<u8>) -> Seq<char>;
#[derive(Clone, Copy)]
pub struct Ipv4Addr { pub o: [u8; 4] }
#[derive(Clone, Copy)]
pub struct Ipv6Addr { pub o: [u8; 16] }
impl Ipv4Addr {
    pub fn from(b: [u8; 4]) -> (r: Self) ensures r.o@ == b@ { Ipv4Addr { o: b } }
    pub fn octets(&self) -> (r: [u8; 4]) ensures r@ == self.o@ { self.o }
}
impl Ipv6Addr {
    pub fn from(b: [u8; 16]) -> (r: Self) ensures r.o@ == b@ { Ipv6Addr { o: b } }
    pub fn octets(&self) -> (r: [u8; 16]) ensures r@ == self.o@ { self.o }
    // conversions to IPv4: which addresses convert, and to what, is left uninterpreted (no contract relies on them)
    #[verifier::external_body] pub fn to_ipv4(&self) -> (r: Option<Ipv4Addr>) { unimplemented!() }
    #[verifier::external_body] pub fn to_ipv4_mapped(&self) -> (r: Option<Ipv4Addr>) { unimplemented!() }
    #[verifier::external_body] pub fn is_loopback(&self) -> (r: bool) { unimplemented!() }
    #[verifier::external_body] pub fn is_unspecified(&self) -> (r: bool) { unimplemented!() }
}
pub enum IpAddr { V4(Ipv4Addr), V6(Ipv6Addr) }
pub open spec fn ip_display(ip: IpAddr) -> Seq<char> { match ip { IpAddr::V4(a) => ip4_display(a.o@), IpAddr::V6(a) => ip6_display(a.o@) } }
impl IpAddr {
    #[verifier::external_body]
    pub fn to_string(&self) -> (r: String) ensures r@ == ip_display(*self) { unimplemented!() }
}
// UTF-8 decoding of domain names: uninterpreted but functional
pub uninterp spec fn valid_utf8(b: Seq<u8>) -> bool;
pub uninterp spec fn utf8_decode(b: Seq<u8>) -> Seq<char>;
#[verifier::external_type_specification]
#[verifier::external_body]
pub struct ExFromUtf8Error(std::string::FromUtf8Error);
pub assume_specification[String::from_utf8](v: Vec<u8>) -> (r: std::result::Result<String, std::string::FromUtf8Error>)
    ensures r is Ok <==> valid_utf8(v@), r is Ok ==> r->Ok_0@ == utf8_decode(v@);
pub uninterp spec fn utf8_encode(s: Seq<char>) -> Seq<u8>;
// a String's bytes are valid UTF-8 and decode to the string (String invariant); a non-empty string has a non-empty encoding
pub broadcast axiom fn axiom_utf8_roundtrip(s: Seq<char>)
    ensures #[trigger] valid_utf8(utf8_encode(s)), utf8_decode(utf8_encode(s)) == s;
pub broadcast axiom fn axiom_utf8_nonempty(s: Seq<char>)
    ensures s.len() > 0 ==> (#[trigger] utf8_encode(s)).len() > 0;
