"""Conversion-trait calls whose result vstd may leave UNSPECIFIED (From / Into / TryFrom / TryInto / Default on types that are neither
integer types - covered by axioms in shims/core.rs - nor defined in the assembled text).  Verus accepts such a call and treats its
result as an arbitrary value, so a harmless refactoring that introduces one makes the function's obligations unprovable.  The
unchanged tree's calls are recorded per function in tools/vx/vocab.json (tools/gen_vocab.py); a function whose obligations fail AND
whose extracted text contains a conversion call that is not in that record is UNDECIDED, not a violation."""
import json
import os
import re

INT = {"u8", "u16", "u32", "u64", "u128", "usize", "i8", "i16", "i32", "i64", "i128", "isize"}
CALL = re.compile(r"\b([A-Za-z_]\w*)\s*::\s*(from|try_from|default)\s*\(")
METH = re.compile(r"\.\s*(into|try_into|to_owned)\s*\(\s*\)")
BEGIN = re.compile(r"^//@@ begin unit=(\S+) fn=(\S+)", re.M)


def defined_types(text):
    return set(re.findall(r"\b(?:struct|enum|type|trait)\s+([A-Za-z_]\w*)", text))


def fn_texts(text):
    out = {}
    for m in BEGIN.finditer(text):
        unit, fn = m.group(1), m.group(2)
        e = text.find(f"//@@ end unit={unit} fn={fn}", m.end())
        if e > 0:
            body = text[m.end():e]
            # the contract (between cbegin / cend) and injected proof text are not program text
            body = re.sub(r"//@@ cbegin.*?//@@ cend", "", body, flags=re.S)
            body = re.sub(r"//@@ ibegin.*?//@@ iend", "", body, flags=re.S)
            body = re.sub(r"//[^\n]*", "", body)
            out[f"{unit}.{fn}"] = body
    return out


def conversions(body, defined):
    sigs = set()
    for m in CALL.finditer(body):
        t = m.group(1)
        if t in INT or t in defined or t == "Self":
            continue
        sigs.add(f"{t}::{m.group(2)}")
    for m in METH.finditer(body):
        sigs.add("." + m.group(1) + "()")
    return sigs


def load():
    p = os.path.join(os.path.dirname(__file__), "vocab.json")
    return json.load(open(p)) if os.path.exists(p) else {}
