// ---- shim http_env: what client/http_proxy.rs (header reader + connection dialogue) refers to (TRUSTED) ----
pub use tokio_net::TcpStream;
pub open spec fn term_at(s: Seq<u8>, i: int) -> bool { 0 <= i && i + 4 <= s.len() && s[i] == 13u8 && s[i + 1] == 10u8 && s[i + 2] == 13u8 && s[i + 3] == 10u8 }
// term_at in terms of a window of four bytes (proved)
pub proof fn lemma_term_window(s: Seq<u8>, i: int)
    ensures term_at(s, i) == (0 <= i && i + 4 <= s.len() && s.subrange(i, i + 4) == seq![13u8, 10u8, 13u8, 10u8])
{
    if 0 <= i && i + 4 <= s.len() {
        let w = s.subrange(i, i + 4);
        assert(w[0] == s[i] && w[1] == s[i + 1] && w[2] == s[i + 2] && w[3] == s[i + 3]);
        if term_at(s, i) { assert(w =~= seq![13u8, 10u8, 13u8, 10u8]); }
    }
}
// <[u8]>::windows(n).position(|w| w == p) (std): index of the first window of length n that equals p
#[verifier::external_body]
pub fn vx_windows_position(buf: &[u8], n: usize, p: &[u8]) -> (r: Option<usize>)
    ensures buf@.len() <= usize::MAX,
            r is Some ==> r->Some_0 + n <= buf@.len() && buf@.subrange(r->Some_0 as int, r->Some_0 + n) == p@
                && (forall|j: int| 0 <= j < r->Some_0 && j + n <= buf@.len() ==> #[trigger] buf@.subrange(j, j + n) != p@),
            r is None ==> forall|j: int| 0 <= j && j + n <= buf@.len() ==> #[trigger] buf@.subrange(j, j + n) != p@
{ unimplemented!() }
#[verifier::external_body]
pub fn vx_slice_to_vec(s: &[u8]) -> (r: Vec<u8>) ensures r@ == s@ { s.to_vec() }
// String::from_utf8: the bytes themselves when they are valid UTF-8
pub struct FromUtf8Error;
impl VStr { #[verifier::external_body] pub fn from_utf8(v: Vec<u8>) -> (r: std::result::Result<VStr, FromUtf8Error>) ensures r is Ok ==> r->Ok_0@ == v@ && str_wf(r->Ok_0@) { unimplemented!() } }
// the request parser / rewriter are the REAL functions (unit http_text, string model of shims/str_env.rs)
// Fin = end of data announced on the tunnel's stream; Released = the session handed back to the pool; SessionFailed = a write on the
// session failed (which closes the session: Session::write_frame's contract, group `session`)
pub enum HxEv { Tunnel { host: Seq<u8>, port: u16 }, Data { id: u32, bytes: Seq<u8> }, Fin, Released, SessionFailed }
pub struct ProxyStream { pub id: u32 }
impl ProxyStream {
    pub fn id(&self) -> (r: u32) ensures r == self.id { self.id }
    #[verifier::external_body] pub fn send_fin(&self, fx: &mut Ghost<Seq<HxEv>>) ensures final(fx)@ == old(fx)@.push(HxEv::Fin) { }
}
pub struct ProxySession { pub _p: () }
impl ProxySession {
    #[verifier::external_body]
    pub fn write_data_frame(&self, id: u32, data: Bytes, fx: &mut Ghost<Seq<HxEv>>) -> (r: Result<()>)
        ensures r is Ok ==> final(fx)@ == old(fx)@.push(HxEv::Data { id: id, bytes: data@ }), r is Err ==> final(fx)@ == old(fx)@.push(HxEv::SessionFailed)
    { unimplemented!() }
}
pub struct Client { pub _p: () }
impl Client {
    #[verifier::external_body]
    pub fn create_proxy_stream(&self, destination: (VStr, u16), fx: &mut Ghost<Seq<HxEv>>) -> (r: Result<(Arc<ProxyStream>, Arc<ProxySession>)>)
        ensures r is Ok ==> final(fx)@ == old(fx)@.push(HxEv::Tunnel { host: destination.0@, port: destination.1 }), r is Err ==> final(fx)@ == old(fx)@
    { unimplemented!() }
    // Client::release_session (group `pool`)
    #[verifier::external_body]
    pub fn release_session(&self, session: Arc<ProxySession>, fx: &mut Ghost<Seq<HxEv>>) ensures final(fx)@ == old(fx)@.push(HxEv::Released) { }
}
pub use std::sync::Arc;
#[verifier::external_body]
pub fn send_connect_success(stream: &mut TcpStream) -> (r: Result<()>)
    ensures final(stream).avail == old(stream).avail, r is Ok ==> final(stream).written == old(stream).written + http_200(),
        r is Err ==> final(stream).written.len() < old(stream).written.len() + http_200().len()
{ unimplemented!() }
pub uninterp spec fn http_200() -> Seq<u8>;
#[verifier::external_body]
pub fn send_http_error(stream: &mut TcpStream, code: u16, message: &VStr) -> (r: Result<()>)
    requires code >= 400
    ensures final(stream).avail == old(stream).avail, final(stream).written.len() >= old(stream).written.len(),
        // an error reply is never the 200 line
        !(final(stream).written.len() >= old(stream).written.len() + http_200().len() && final(stream).written.subrange(old(stream).written.len() as int, (old(stream).written.len() + http_200().len()) as int) == http_200())
{ unimplemented!() }
pub broadcast axiom fn axiom_200_nonempty() ensures #[trigger] http_200().len() > 0;
#[verifier::external_body]
pub fn vx_clone_pair(p: &(VStr, u16)) -> (r: (VStr, u16)) ensures r.0@ == p.0@, r.1 == p.1 { unimplemented!() }
