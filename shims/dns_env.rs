// ---- shim dns_env: what util/dns_cache.rs (cache part) refers to (TRUSTED) ----
pub struct SocketAddr { pub ip: IpAddr, pub port: u16 }
impl SocketAddr {
    pub fn new(ip: IpAddr, port: u16) -> (r: Self) ensures r.ip == ip, r.port == port { SocketAddr { ip, port } }
    pub fn port(&self) -> (r: u16) ensures r == self.port { self.port }
    #[verifier::external_body]
    pub fn ip(&self) -> (r: IpAddr) ensures r == self.ip { unimplemented!() }
}
impl Clone for SocketAddr { #[verifier::external_body] fn clone(&self) -> (r: Self) ensures r == *self { unimplemented!() } }
impl Copy for SocketAddr {}
impl Clone for IpAddr { #[verifier::external_body] fn clone(&self) -> (r: Self) ensures r == *self { unimplemented!() } }
impl Copy for IpAddr {}
pub struct Instant { pub t: u64 }
impl Instant {
    #[verifier::external_body] pub fn now() -> (r: Instant) { unimplemented!() }
    // `a <= b` on instants (rule R: comparison operator on a shimmed type)
    #[verifier::external_body] pub fn vx_le(&self, o: &Instant) -> (r: bool) { self.t <= o.t }
}
// HashMap<String, V> keyed by host name, as a ghost map over the key's characters
#[verifier::external_body]
#[verifier::reject_recursive_types(K)]
#[verifier::reject_recursive_types(V)]
pub struct HashMap<K, V> { _k: std::marker::PhantomData<K>, _v: std::marker::PhantomData<V> }
impl<V> HashMap<String, V> {
    pub uninterp spec fn view(&self) -> Map<Seq<char>, V>;
    #[verifier::external_body]
    pub fn get(&self, k: &str) -> (r: Option<&V>)
        ensures r is Some <==> self@.contains_key(k@), r is Some ==> *r->Some_0 == self@[k@]
    { unimplemented!() }
}
pub struct DnsState { pub inner: HashMap<String, CacheEntry> }
pub struct DnsCache { pub _p: () }
impl DnsCache {
    // round-robin cursor: changes next_index only (its body uses HashMap::get_mut; not extracted)
    #[verifier::external_body]
    pub fn advance(&self, host: &str, st: &mut DnsState)
        ensures final(st).inner@.dom() == old(st).inner@.dom(),
            forall|k: Seq<char>| old(st).inner@.contains_key(k) ==> (#[trigger] final(st).inner@[k]).addresses == old(st).inner@[k].addresses
    { unimplemented!() }
}
#[verifier::external_body]
pub fn vx_parse_IpAddr(s: &&str) -> (r: std::result::Result<IpAddr, ()>)
    ensures r is Ok ==> ip_display(r->Ok_0) == s@
{ unimplemented!() }
