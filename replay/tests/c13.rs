//! F-C13-a (repaired): a session left the idle map when a request took it and nothing ever put it back, so every second
//! sequential request dialled a new TLS connection and the earlier sessions stayed open for ever (kept alive by their monitors).
#![allow(dead_code)]
mod common;
use common::{TestConfig, create_test_client, create_test_server};
use std::net::TcpListener;
use std::sync::Arc;
use std::sync::atomic::{AtomicUsize, Ordering};
use tokio::io::{AsyncReadExt, AsyncWriteExt};
use tokio::net::TcpStream;
use tokio::time::{Duration, sleep, timeout};

fn available_port() -> u16 { TcpListener::bind("127.0.0.1:0").unwrap().local_addr().unwrap().port() }

/// client -> [counting TCP relay] -> server: the relay counts the TLS connections the client dials and how many are still open
async fn stack() -> anyhow::Result<(String, u16, Arc<AtomicUsize>, Arc<AtomicUsize>)> {
    let real_server = format!("127.0.0.1:{}", available_port());
    let relay_addr = format!("127.0.0.1:{}", available_port());
    let config = TestConfig { server_addr: real_server.clone(), client_listen: format!("127.0.0.1:{}", available_port()), password: "replay_password".to_string() };
    let server = create_test_server(&config).await?;
    let sa = real_server.clone();
    tokio::spawn(async move { let _ = server.listen(&sa).await; });
    sleep(Duration::from_millis(300)).await;
    let (dialled, open) = (Arc::new(AtomicUsize::new(0)), Arc::new(AtomicUsize::new(0)));
    let relay = tokio::net::TcpListener::bind(&relay_addr).await?;
    let (d2, o2, rs) = (dialled.clone(), open.clone(), real_server.clone());
    tokio::spawn(async move { loop { if let Ok((mut c, _)) = relay.accept().await {
        d2.fetch_add(1, Ordering::SeqCst); o2.fetch_add(1, Ordering::SeqCst);
        let (o3, rs) = (o2.clone(), rs.clone());
        tokio::spawn(async move { if let Ok(mut s) = TcpStream::connect(&rs).await { let _ = tokio::io::copy_bidirectional(&mut c, &mut s).await; } o3.fetch_sub(1, Ordering::SeqCst); });
    } } });
    let client_cfg = TestConfig { server_addr: relay_addr, client_listen: config.client_listen.clone(), password: config.password.clone() };
    let client = create_test_client(&client_cfg).await?;
    let socks_addr = client_cfg.client_listen.clone();
    let (c2, a2) = (Arc::clone(&client), socks_addr.clone());
    tokio::spawn(async move { let _ = anytls_rs::client::start_socks5_server(&a2, c2).await; });
    sleep(Duration::from_millis(400)).await;
    // an echo target
    let up = tokio::net::TcpListener::bind("127.0.0.1:0").await?;
    let up_port = up.local_addr()?.port();
    tokio::spawn(async move { loop { if let Ok((mut s, _)) = up.accept().await { tokio::spawn(async move { let mut b = [0u8; 4096]; loop { match s.read(&mut b).await { Ok(0) | Err(_) => break, Ok(n) => { if s.write_all(&b[..n]).await.is_err() { break; } } } } let _ = s.shutdown().await; }); } } });
    Ok((socks_addr, up_port, dialled, open))
}

async fn one_request(socks_addr: &str, up_port: u16, tag: u8) -> anyhow::Result<()> {
    let mut s = timeout(Duration::from_secs(5), TcpStream::connect(socks_addr)).await??;
    s.write_all(&[5, 1, 0]).await?;
    let mut r = [0u8; 2]; s.read_exact(&mut r).await?;
    let mut req = vec![5, 1, 0, 1, 127, 0, 0, 1]; req.extend_from_slice(&up_port.to_be_bytes());
    s.write_all(&req).await?;
    let mut rep = [0u8; 10]; timeout(Duration::from_secs(5), s.read_exact(&mut rep)).await??;
    anyhow::ensure!(rep[1] == 0, "connect refused");
    s.write_all(&[tag; 1000]).await?;
    s.shutdown().await?;
    let mut back = Vec::new();
    timeout(Duration::from_secs(5), s.read_to_end(&mut back)).await??;
    anyhow::ensure!(back == vec![tag; 1000], "echo differs");
    Ok(())
}

/// requests that do not overlap are served over the established session: one TLS connection for all of them
#[tokio::test]
async fn f_c13_a_sequential_requests_reuse_one_session() -> anyhow::Result<()> {
    let (socks_addr, up_port, dialled, open) = stack().await?;
    for k in 0..7u8 {
        one_request(&socks_addr, up_port, k).await?;
        sleep(Duration::from_millis(150)).await;
    }
    assert_eq!(dialled.load(Ordering::SeqCst), 1, "7 sequential requests dialled {} TLS connections (and {} are still open)", dialled.load(Ordering::SeqCst), open.load(Ordering::SeqCst));
    Ok(())
}

/// bursts: the number of connections ever dialled stays within the peak number of simultaneous requests, however many
/// requests have been served; a refused request (nothing listens on the port) hands its session back too
#[tokio::test]
async fn f_c13_a_sessions_stay_bounded_by_the_peak_number_of_simultaneous_requests() -> anyhow::Result<()> {
    let (socks_addr, up_port, dialled, _open) = stack().await?;
    for round in 0..4u8 {
        let mut hs = Vec::new();
        for j in 0..3u8 { let a = socks_addr.clone(); hs.push(tokio::spawn(async move { one_request(&a, up_port, round * 3 + j).await })); }
        for h in hs { h.await??; }
        sleep(Duration::from_millis(150)).await;
        // a request the server refuses (closed port): the session it used must come back to the pool
        let dead_port = available_port();
        assert!(one_request(&socks_addr, dead_port, 0).await.is_err());
        sleep(Duration::from_millis(150)).await;
    }
    let n = dialled.load(Ordering::SeqCst);
    assert!(n <= 3, "12 requests in bursts of 3 (plus 4 refused ones) dialled {n} TLS connections: more than the peak of 3 simultaneous requests");
    Ok(())
}
