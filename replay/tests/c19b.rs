//! F-C19-b (repaired): a scheme pushed by the server replaced the process-wide default and the scheme of the session that received
//! it, but Client kept handing its construction-time scheme to every NEW session: the push was repeated on each of them.
//! Own test binary: the process-wide default scheme is global state.
mod common;
use anytls_rs::padding::PaddingFactory;
use anytls_rs::server::Server;
use common::{TestConfig, create_test_client};
use std::net::TcpListener;
use std::sync::Arc;
use tokio::time::{Duration, sleep};

fn available_port() -> u16 { TcpListener::bind("127.0.0.1:0").unwrap().local_addr().unwrap().port() }

#[tokio::test]
async fn f_c19_b_a_session_opened_after_a_push_starts_from_the_adopted_scheme() -> anyhow::Result<()> {
    // a server whose scheme differs from the client's
    let server_scheme: &[u8] = b"stop=3\n0=40-40\n1=120-240\n2=300-500";
    let server_padding = Arc::new(PaddingFactory::new(server_scheme).unwrap());
    let config = TestConfig { server_addr: format!("127.0.0.1:{}", available_port()), client_listen: format!("127.0.0.1:{}", available_port()), password: "replay_password".to_string() };
    let tls = anytls_rs::util::tls::create_server_config()?;
    let acceptor = Arc::new(tokio_rustls::TlsAcceptor::from(tls));
    let server = Arc::new(Server::new(&config.password, acceptor, server_padding.clone(), None));
    let sa = config.server_addr.clone();
    tokio::spawn(async move { let _ = server.listen(&sa).await; });
    sleep(Duration::from_millis(300)).await;

    let client = create_test_client(&config).await?;            // built with the process-wide default scheme
    let client_md5 = PaddingFactory::default().md5().to_string();
    assert_ne!(client_md5, server_padding.md5());
    // first session: announces the client's scheme, the server pushes its own, the session adopts it
    let s1 = client.create_stream().await?;
    let (_st, _rx) = s1.open_stream().await?;
    s1.disable_buffering();
    s1.write_data_frame(_st.id(), bytes::Bytes::from_static(b"\x01\x7f\x00\x00\x01\x00\x09")).await?;
    let t0 = std::time::Instant::now();
    while PaddingFactory::default().md5() != server_padding.md5() && t0.elapsed() < Duration::from_secs(5) { sleep(Duration::from_millis(20)).await; }
    assert_eq!(PaddingFactory::default().md5(), server_padding.md5(), "the pushed scheme never became the default");
    assert_eq!(s1.verif_padding_md5().await, server_padding.md5(), "the session that received the push did not switch to it");
    // second session: a new session sits in the idle map while it is in use, so one more acquisition takes s1 out of the map;
    // the next one finds the map empty and dials
    let again = client.create_stream().await?;
    assert!(Arc::ptr_eq(&s1, &again));
    let s2 = client.create_stream().await?;
    assert!(!Arc::ptr_eq(&s1, &s2), "expected a newly dialled session");
    assert_eq!(s2.verif_padding_md5().await, server_padding.md5(),
        "a session opened after the push still starts from the client's original scheme {client_md5}: the server has to push its scheme again on every new session");
    Ok(())
}
