// ---- spec wire: the AnyTLS frame format as mathematics (hand-written from the protocol statement) ----
pub open spec fn cmd_of(b: u8) -> Command {
    match b {
        1u8 => Command::Syn, 2u8 => Command::Push, 3u8 => Command::Fin, 4u8 => Command::Settings,
        5u8 => Command::Alert, 6u8 => Command::UpdatePaddingScheme, 7u8 => Command::SynAck,
        8u8 => Command::HeartRequest, 9u8 => Command::HeartResponse, 10u8 => Command::ServerSettings,
        _ => Command::Waste,
    }
}
pub open spec fn cmd_byte(c: Command) -> u8 {
    match c {
        Command::Waste => 0u8, Command::Syn => 1u8, Command::Push => 2u8, Command::Fin => 3u8,
        Command::Settings => 4u8, Command::Alert => 5u8, Command::UpdatePaddingScheme => 6u8,
        Command::SynAck => 7u8, Command::HeartRequest => 8u8, Command::HeartResponse => 9u8,
        Command::ServerSettings => 10u8,
    }
}
impl vstd::std_specs::convert::FromSpecImpl<u8> for Command {
    open spec fn obeys_from_spec() -> bool { true }
    open spec fn from_spec(v: u8) -> Command { cmd_of(v) }
}
impl vstd::std_specs::convert::FromSpecImpl<Command> for u8 {
    open spec fn obeys_from_spec() -> bool { true }
    open spec fn from_spec(c: Command) -> u8 { cmd_byte(c) }
}

// abstract frame
pub struct FrameS { pub cmd: Command, pub stream_id: u32, pub data: Seq<u8> }
impl Frame {
    pub open spec fn spec(&self) -> FrameS { FrameS { cmd: self.cmd, stream_id: self.stream_id, data: self.data@ } }
}

// the byte string of a frame; only meaningful for payloads that fit the 16-bit length field
pub open spec fn wire(f: FrameS) -> Seq<u8>
    recommends f.data.len() <= 65535
{
    seq![cmd_byte(f.cmd)] + be32(f.stream_id) + be16(f.data.len() as u16) + f.data
}

// one decoding step: None = nothing decodable yet (and nothing may be consumed)
pub open spec fn step(s: Seq<u8>) -> Option<(FrameS, Seq<u8>)> {
    if s.len() < 7 { None }
    else {
        let n = de16(s.subrange(5, 7)) as int;
        if s.len() < 7 + n { None }
        else { Some((FrameS { cmd: cmd_of(s[0]), stream_id: de32(s.subrange(1, 5)), data: s.subrange(7, 7 + n) }, s.subrange(7 + n, s.len() as int))) }
    }
}
// repeated decoding: frames decoded and undecodable remainder
pub open spec fn parse(s: Seq<u8>) -> (Seq<FrameS>, Seq<u8>) decreases s.len()
{
    match step(s) {
        None => (Seq::empty(), s),
        Some((f, r)) => { let p = parse(r); (seq![f] + p.0, p.1) }
    }
}

