// ---- shim str_env: `str` / `String` as their UTF-8 byte sequences (TRUSTED byte-level contracts of the std methods used
//      by the HTTP front-end's text functions; rule S re-types the extracted text onto VStr) ----
pub struct VStr { pub ghost b: Seq<u8> }
impl View for VStr { type V = Seq<u8>; open spec fn view(&self) -> Seq<u8> { self.b } }
pub struct ParseIntError;

// UTF-8 facts.  cont(x): x is a continuation byte.  is_char_boundary(i) is exactly this byte test (std).
pub open spec fn cont(x: u8) -> bool { 0x80 <= x && x < 0xC0 }
pub open spec fn boundary(s: Seq<u8>, i: int) -> bool { 0 <= i <= s.len() && (i == 0 || i == s.len() || !cont(s[i])) }
// consequence of UTF-8 validity (the type invariant of str) that the proofs need: an ASCII byte is a whole character,
// so the byte after it is not a continuation byte
pub open spec fn str_wf(s: Seq<u8>) -> bool { forall|i: int| #![trigger s[i]] 0 <= i && i + 1 < s.len() && s[i] < 0x80 ==> !cont(s[i + 1]) }
pub open spec fn occurs_at(s: Seq<u8>, p: Seq<u8>, i: int) -> bool { 0 <= i && i + p.len() <= s.len() && s.subrange(i, i + p.len()) == p }
pub open spec fn occurs(s: Seq<u8>, c: u8) -> bool { exists|j: int| 0 <= j < s.len() && s[j] == c }
pub open spec fn first_occ_at(s: Seq<u8>, p: Seq<u8>, i: int) -> bool { occurs_at(s, p, i) && forall|j: int| 0 <= j < i ==> !occurs_at(s, p, j) }
pub open spec fn ascii_ws(x: u8) -> bool { x == 0x20 || (0x09 <= x && x <= 0x0D) }
pub open spec fn lower1(x: u8) -> u8 { if 0x41 <= x && x <= 0x5A { (x + 32) as u8 } else { x } }
pub open spec fn lower(s: Seq<u8>) -> Seq<u8> { Seq::new(s.len(), |i: int| lower1(s[i])) }
pub open spec fn is_digit(x: u8) -> bool { 0x30 <= x && x <= 0x39 }
pub open spec fn all_digits(s: Seq<u8>) -> bool { s.len() > 0 && forall|i: int| 0 <= i < s.len() ==> is_digit(#[trigger] s[i]) }
pub open spec fn dec_value(s: Seq<u8>) -> nat decreases s.len() { if s.len() == 0 { 0 } else { dec_value(s.drop_last()) * 10 + (s.last() - 0x30) as nat } }
// decimal text of a number (Display for u16): uninterpreted except for what the trusted contracts say
pub uninterp spec fn dec(n: u16) -> Seq<u8>;
pub uninterp spec fn trim_lo(s: Seq<u8>) -> int;
pub uninterp spec fn trim_hi(s: Seq<u8>) -> int;
pub uninterp spec fn tm_lo(s: Seq<u8>, c: u8) -> int;
pub uninterp spec fn tm_hi(s: Seq<u8>, c: u8) -> int;
pub open spec fn trimmed(s: Seq<u8>) -> Seq<u8> { s.subrange(trim_lo(s), trim_hi(s)) }
pub open spec fn trimmed_c(s: Seq<u8>, c: u8) -> Seq<u8> { s.subrange(tm_lo(s, c), tm_hi(s, c)) }
// str::trim: strips Unicode White_Space at both ends.  Stated for what is decidable on bytes: the result is a sub-range;
// every ASCII byte that was removed is ASCII white space; no ASCII white space is left at either end; an end that is an
// ASCII non-space byte is not touched
#[verifier::opaque]
pub open spec fn trim_facts(s: Seq<u8>) -> bool {
    let lo = trim_lo(s); let hi = trim_hi(s);
    0 <= lo <= hi <= s.len() && boundary(s, lo) && boundary(s, hi)
    && (forall|j: int| #![trigger s[j]] 0 <= j < s.len() && (j < lo || j >= hi) && s[j] < 0x80 ==> ascii_ws(s[j]))
    && (lo < hi ==> !ascii_ws(s[lo]) && !ascii_ws(s[hi - 1]))
    && (s.len() > 0 && s[0] < 0x80 && !ascii_ws(s[0]) ==> lo == 0)
    && (s.len() > 0 && s[s.len() - 1] < 0x80 && !ascii_ws(s[s.len() - 1]) ==> hi == s.len())
}
// str::trim_matches(c) for an ASCII c: strips every leading and trailing c
#[verifier::opaque]
pub open spec fn tm_facts(s: Seq<u8>, c: u8) -> bool {
    let lo = tm_lo(s, c); let hi = tm_hi(s, c);
    0 <= lo <= hi <= s.len() && boundary(s, lo) && boundary(s, hi)
    && (forall|j: int| #![trigger s[j]] 0 <= j < s.len() && (j < lo || j >= hi) ==> s[j] == c)
    && (lo < hi ==> s[lo] != c && s[hi - 1] != c)
}

#[verifier::external_body]
pub fn vx_lit<'a>(b: &'a [u8]) -> (r: &'a VStr) ensures r@ == b@, str_wf(r@) { unimplemented!() }

impl Clone for VStr { #[verifier::external_body] fn clone(&self) -> (r: Self) ensures r@ == self@, str_wf(r@) { unimplemented!() } }
impl VStr {
    #[verifier::external_body] pub fn new() -> (r: VStr) ensures r@ == Seq::<u8>::empty(), str_wf(r@) { unimplemented!() }
    #[verifier::external_body] pub fn len(&self) -> (r: usize) ensures r == self@.len() { unimplemented!() }
    #[verifier::external_body] pub fn is_empty(&self) -> (r: bool) ensures r == (self@.len() == 0) { unimplemented!() }
    #[verifier::external_body] pub fn to_string(&self) -> (r: VStr) ensures r@ == self@, str_wf(r@) { unimplemented!() }
    #[verifier::external_body] pub fn as_bytes(&self) -> (r: &[u8]) ensures r@ == self@ { unimplemented!() }
    #[verifier::external_body]
    pub fn rfind_c(&self, c: u8) -> (r: Option<usize>)
        requires c < 0x80,
        ensures self@.len() <= isize::MAX,   // no Rust allocation is larger
                r is Some ==> r->Some_0 < self@.len() && self@[r->Some_0 as int] == c && (forall|j: int| r->Some_0 < j < self@.len() ==> self@[j] != c),
                r is None ==> forall|j: int| 0 <= j < self@.len() ==> self@[j] != c
    { unimplemented!() }
    #[verifier::external_body]
    pub fn find_c(&self, c: u8) -> (r: Option<usize>)
        requires c < 0x80,
        ensures self@.len() <= isize::MAX,
                r is Some ==> r->Some_0 < self@.len() && self@[r->Some_0 as int] == c && (forall|j: int| 0 <= j < r->Some_0 ==> self@[j] != c),
                r is None ==> forall|j: int| 0 <= j < self@.len() ==> self@[j] != c
    { unimplemented!() }
    #[verifier::external_body]
    pub fn find(&self, p: &VStr) -> (r: Option<usize>)
        ensures self@.len() <= isize::MAX,
                r is Some ==> occurs_at(self@, p@, r->Some_0 as int) && (forall|j: int| 0 <= j < r->Some_0 ==> !occurs_at(self@, p@, j)) && first_occ_at(self@, p@, r->Some_0 as int),
                r is None ==> forall|j: int| !occurs_at(self@, p@, j)
    { unimplemented!() }
    #[verifier::external_body]
    pub fn contains_c(&self, c: u8) -> (r: bool)
        requires c < 0x80,
        ensures r == occurs(self@, c)
    { unimplemented!() }
    #[verifier::external_body] pub fn starts_with(&self, p: &VStr) -> (r: bool) ensures r == occurs_at(self@, p@, 0) { unimplemented!() }
    #[verifier::external_body] pub fn starts_with_c(&self, c: u8) -> (r: bool) requires c < 0x80, ensures r == (self@.len() > 0 && self@[0] == c) { unimplemented!() }
    #[verifier::external_body] pub fn ends_with(&self, p: &VStr) -> (r: bool) ensures r == occurs_at(self@, p@, self@.len() - p@.len()) { unimplemented!() }
    #[verifier::external_body] pub fn ends_with_c(&self, c: u8) -> (r: bool) requires c < 0x80, ensures r == (self@.len() > 0 && self@[self@.len() - 1] == c) { unimplemented!() }
    #[verifier::external_body] pub fn contains(&self, p: &VStr) -> (r: bool) ensures r == (exists|j: int| occurs_at(self@, p@, j)) { unimplemented!() }
    #[verifier::external_body]
    pub fn rfind(&self, p: &VStr) -> (r: Option<usize>)
        ensures self@.len() <= isize::MAX,
                r is Some ==> occurs_at(self@, p@, r->Some_0 as int) && (forall|j: int| r->Some_0 < j ==> !occurs_at(self@, p@, j)),
                r is None ==> forall|j: int| !occurs_at(self@, p@, j)
    { unimplemented!() }
    #[verifier::external_body]
    pub fn strip_suffix<'a>(&'a self, p: &VStr) -> (r: Option<&'a VStr>)
        ensures r is Some <==> occurs_at(self@, p@, self@.len() - p@.len()),
                r is Some ==> r->Some_0@ == self@.subrange(0, self@.len() - p@.len()) && str_wf(r->Some_0@)
    { unimplemented!() }
    // str::split_once(c): the text before and after the FIRST c; None when c does not occur
    #[verifier::external_body]
    pub fn split_once_c<'a>(&'a self, c: u8) -> (r: Option<(&'a VStr, &'a VStr)>)
        requires c < 0x80,
        ensures r is None ==> !occurs(self@, c),
                r is Some ==> exists|p: int| 0 <= p < self@.len() && self@[p] == c && (forall|j: int| 0 <= j < p ==> self@[j] != c)
                    && r->Some_0.0@ == self@.subrange(0, p) && r->Some_0.1@ == self@.subrange(p + 1, self@.len() as int),
                r is Some ==> str_wf(r->Some_0.0@) && str_wf(r->Some_0.1@)
    { unimplemented!() }
    #[verifier::external_body] pub fn is_char_boundary(&self, i: usize) -> (r: bool) ensures r == boundary(self@, i as int) { unimplemented!() }
    #[verifier::external_body]
    pub fn strip_prefix<'a>(&'a self, p: &VStr) -> (r: Option<&'a VStr>)
        ensures r is Some <==> occurs_at(self@, p@, 0),
                r is Some ==> r->Some_0@ == self@.subrange(p@.len() as int, self@.len() as int) && str_wf(r->Some_0@)
    { unimplemented!() }
    #[verifier::external_body]
    pub fn trim<'a>(&'a self) -> (r: &'a VStr) ensures r@ == trimmed(self@), trim_facts(self@), str_wf(r@) { unimplemented!() }
    #[verifier::external_body]
    pub fn trim_matches_c<'a>(&'a self, c: u8) -> (r: &'a VStr) requires c < 0x80, ensures r@ == trimmed_c(self@, c), tm_facts(self@, c), str_wf(r@) { unimplemented!() }
    #[verifier::external_body]
    pub fn eq_ignore_ascii_case(&self, p: &VStr) -> (r: bool) ensures r == (lower(self@) == lower(p@)) { unimplemented!() }
    #[verifier::external_body]
    pub fn to_ascii_lowercase(&self) -> (r: VStr) ensures r@ == lower(self@), str_wf(r@) { unimplemented!() }
    // u16::from_str: an optional '+', then one or more ASCII digits, value at most 65535; anything else is an error
    #[verifier::external_body]
    pub fn vx_parse_u16(&self) -> (r: std::result::Result<u16, ParseIntError>)
        ensures (all_digits(self@) && dec_value(self@) <= 65535) ==> r is Ok && r->Ok_0 == dec_value(self@),
                r is Ok ==> (all_digits(self@) && dec_value(self@) == r->Ok_0)
                    || (self@.len() > 1 && self@[0] == 0x2B && all_digits(self@.subrange(1, self@.len() as int)) && dec_value(self@.subrange(1, self@.len() as int)) == r->Ok_0)
    { unimplemented!() }
    // str indexing by a byte range PANICS unless both ends are in range and on character boundaries
    #[verifier::external_body]
    pub fn vx_slice<'a>(&'a self, a: usize, b: usize) -> (r: &'a VStr)
        requires a <= b <= self@.len(), boundary(self@, a as int), boundary(self@, b as int),
        ensures r@ == self@.subrange(a as int, b as int), str_wf(r@)
    { unimplemented!() }
    #[verifier::external_body]
    pub fn vx_slice_from<'a>(&'a self, a: usize) -> (r: &'a VStr)
        requires a <= self@.len(), boundary(self@, a as int),
        ensures r@ == self@.subrange(a as int, self@.len() as int), str_wf(r@)
    { unimplemented!() }
    #[verifier::external_body]
    pub fn vx_slice_to<'a>(&'a self, b: usize) -> (r: &'a VStr)
        requires b <= self@.len(), boundary(self@, b as int),
        ensures r@ == self@.subrange(0, b as int), str_wf(r@)
    { unimplemented!() }
    #[verifier::external_body]
    pub fn vx_cat(&self, o: &VStr) -> (r: VStr) ensures r@ == self@ + o@, str_wf(r@) { unimplemented!() }
}
// Display of the values that occur as format! arguments
pub trait VxDisp { spec fn disp(&self) -> Seq<u8>; fn vx_disp(&self) -> (r: VStr) ensures r@ == self.disp(), str_wf(r@); }
impl VxDisp for VStr { open spec fn disp(&self) -> Seq<u8> { self@ } #[verifier::external_body] fn vx_disp(&self) -> (r: VStr) { unimplemented!() } }
impl VxDisp for &VStr { open spec fn disp(&self) -> Seq<u8> { (**self)@ } #[verifier::external_body] fn vx_disp(&self) -> (r: VStr) { unimplemented!() } }
impl VxDisp for u16 { open spec fn disp(&self) -> Seq<u8> { dec(*self) } #[verifier::external_body] fn vx_disp(&self) -> (r: VStr) { unimplemented!() } }
pub fn vx_as_bytes<'a>(s: &'a VStr) -> (r: &'a [u8]) ensures r@ == s@ { s.as_bytes() }

// ---- pieces of a string: str::split / split_whitespace and the iterator idioms used on them ----
pub open spec fn first_occ(s: Seq<u8>, p: Seq<u8>) -> int { if exists|i: int| first_occ_at(s, p, i) { choose|i: int| first_occ_at(s, p, i) } else { -1 } }
// str::split(pattern) for a non-empty pattern: cut at every occurrence, left to right, non-overlapping; n occurrences give n+1 pieces
pub open spec fn split_spec(s: Seq<u8>, p: Seq<u8>) -> Seq<Seq<u8>> decreases s.len() {
    let i = first_occ(s, p);
    if p.len() == 0 || i < 0 || i + p.len() > s.len() { seq![s] } else { seq![s.subrange(0, i)] + split_spec(s.subrange(i + p.len(), s.len() as int), p) }
}
// str::split_whitespace: the maximal runs of non-white-space characters, in order (Unicode White_Space; uninterpreted)
pub uninterp spec fn ws_tokens(s: Seq<u8>) -> Seq<Seq<u8>>;
pub open spec fn nonempty_of(ls: Seq<Seq<u8>>) -> Seq<Seq<u8>> { ls.filter(|l: Seq<u8>| l.len() > 0) }
pub open spec fn views_of(v: Seq<VStr>) -> Seq<Seq<u8>> { Seq::new(v.len(), |i: int| v[i]@) }
pub struct VPieces<'a> { pub ghost items: Seq<Seq<u8>>, pub _p: std::marker::PhantomData<&'a ()> }
impl VStr {
    #[verifier::external_body]
    pub fn split<'a>(&'a self, p: &VStr) -> (r: VPieces<'a>) ensures r.items == split_spec(self@, p@) { unimplemented!() }
    #[verifier::external_body]
    pub fn split_whitespace<'a>(&'a self) -> (r: VPieces<'a>)
        ensures r.items == ws_tokens(self@), forall|i: int| 0 <= i < r.items.len() ==> (#[trigger] r.items[i]).len() > 0
    { unimplemented!() }
}
impl<'a> VPieces<'a> {
    #[verifier::external_body]
    pub fn next(&mut self) -> (r: Option<&'a VStr>)
        ensures old(self).items.len() == 0 ==> r is None && final(self).items == old(self).items,
                old(self).items.len() > 0 ==> r is Some && r->Some_0@ == old(self).items[0] && str_wf(r->Some_0@) && final(self).items == old(self).items.drop_first()
    { unimplemented!() }
    #[verifier::external_body] pub fn vx_map_to_string(self) -> (r: VPieces<'a>) ensures r.items == self.items { unimplemented!() }
    #[verifier::external_body] pub fn vx_filter_nonempty(self) -> (r: VPieces<'a>) ensures r.items == nonempty_of(self.items) { unimplemented!() }
    #[verifier::external_body]
    pub fn vx_collect(self) -> (r: Vec<VStr>)
        ensures views_of(r@) == self.items, forall|i: int| 0 <= i < r@.len() ==> str_wf(#[trigger] r@[i]@)
    { unimplemented!() }
}
pub trait VxOkOrS<T> { fn vx_ok_or_s(self) -> Result<T>; }
impl<T> VxOkOrS<T> for Option<T> {
    #[verifier::external_body]
    fn vx_ok_or_s(self) -> (r: Result<T>) ensures self is Some ==> r is Ok && r->Ok_0 == self->Some_0, self is None ==> r is Err { unimplemented!() }
}
