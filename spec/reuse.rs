// ---- spec reuse: C13 as lemmas over the contracts of Client::create_stream / release_session / the reaper (group `pool`) ----
// The world of one client: which sessions exist and are open, which of them sit in the idle map, and which unfinished request is
// served over which session. The transitions below are the POSTCONDITIONS of the functions under contract, restated over this view:
//   acquire_reuse  = create_stream when the map holds an open entry     (a_healthy_idle_session_is_reused_instead_of_dialling,
//                                                                          hands_out_the_newest_open_entry_and_removes_it)
//   acquire_dial   = create_stream when it does not                      (at_most_one_connection_is_dialled_per_request; the new
//                                                                          session is put into the map by create_new_session)
//   finish         = the front-end's end of request / create_proxy_stream's refusal paths followed by release_session
//                                                                         (the_session_goes_back_to_the_pool_when_the_request_has_finished,
//                                                                          a_finished_request_puts_its_session_back_under_its_own_key)
//   dies / reap    = a session closes by itself / the reaper closes an idle session that serves nobody
//                                                                         (only_sessions_without_open_streams_are_destroyed)
pub ghost struct World {
    pub open: Set<int>,            // sessions that exist and are not closed
    pub idle: Set<int>,            // open sessions that sit in the idle map
    pub serving: Map<int, int>,    // unfinished request -> the session it is served over
    pub peak: nat,                 // largest number of simultaneously unfinished requests so far
    pub dials: nat,                // TLS connections dialled so far
}
pub open spec fn wf(w: World) -> bool {
    &&& w.idle.subset_of(w.open)
    // every open session can be found: it is in the idle map, or a request that is still running holds it
    &&& forall|s: int| w.open.contains(s) ==> w.idle.contains(s) || exists|r: int| w.serving.dom().contains(r) && #[trigger] w.serving[r] == s
    &&& w.serving.dom().len() <= w.peak
    // C13, second half: the client never keeps more sessions open than the peak number of simultaneous requests
    &&& w.open.len() <= w.peak
}
pub open spec fn init() -> World { World { open: Set::empty(), idle: Set::empty(), serving: Map::empty(), peak: 0, dials: 0 } }
pub open spec fn max(a: nat, b: nat) -> nat { if a >= b { a } else { b } }
pub open spec fn acquire_reuse(w: World, r: int, s: int) -> World
{ World { idle: w.idle.remove(s), serving: w.serving.insert(r, s), peak: max(w.peak, w.serving.insert(r, s).dom().len()), ..w } }
pub open spec fn acquire_dial(w: World, r: int, s: int) -> World
{ World { open: w.open.insert(s), idle: w.idle.insert(s), serving: w.serving.insert(r, s), peak: max(w.peak, w.serving.insert(r, s).dom().len()), dials: w.dials + 1, ..w } }
pub open spec fn finish(w: World, r: int) -> World
{ let s = w.serving[r]; World { serving: w.serving.remove(r), idle: if w.open.contains(s) { w.idle.insert(s) } else { w.idle }, ..w } }
pub open spec fn dies(w: World, s: int) -> World { World { open: w.open.remove(s), idle: w.idle.remove(s), ..w } }

// counting: if every element of A is the image of some key of m, A is no larger than m's domain
pub proof fn lemma_covered(a: Set<int>, m: Map<int, int>)
    requires forall|s: int| a.contains(s) ==> exists|r: int| m.dom().contains(r) && #[trigger] m[r] == s
    ensures a.len() <= m.dom().len()
    decreases a.len()
{
    if a.len() > 0 {
        let s = a.choose();
        let r = choose|r: int| m.dom().contains(r) && #[trigger] m[r] == s;
        let a2 = a.remove(s); let m2 = m.remove(r);
        assert forall|t: int| a2.contains(t) implies exists|q: int| m2.dom().contains(q) && #[trigger] m2[q] == t by {
            let q = choose|q: int| m.dom().contains(q) && #[trigger] m[q] == t;
            assert(q != r); assert(m2.dom().contains(q) && m2[q] == t);
        }
        lemma_covered(a2, m2);
        assert(m2.dom() =~= m.dom().remove(r));
    }
}

pub proof fn lemma_init() ensures wf(init()) { }

// REUSE (first half of C13): a request that finds an open session in the map is served over it - nothing is dialled
pub proof fn lemma_acquire_reuse(w: World, r: int, s: int)
    requires wf(w), w.idle.contains(s), !w.serving.dom().contains(r)
    ensures wf(acquire_reuse(w, r, s)), acquire_reuse(w, r, s).dials == w.dials, acquire_reuse(w, r, s).open == w.open
{
    let w2 = acquire_reuse(w, r, s);
    assert(w2.serving.dom() =~= w.serving.dom().insert(r));
    assert forall|t: int| w2.open.contains(t) implies w2.idle.contains(t) || exists|q: int| w2.serving.dom().contains(q) && #[trigger] w2.serving[q] == t by {
        if t == s { assert(w2.serving.dom().contains(r) && w2.serving[r] == s); }
        else if !w.idle.contains(t) { let q = choose|q: int| w.serving.dom().contains(q) && #[trigger] w.serving[q] == t; assert(q != r); assert(w2.serving.dom().contains(q) && w2.serving[q] == t); }
    }
}
// DIAL: create_stream dials only when the map holds no open session; then every open session is held by a running request, so
// there are at most as many sessions as running requests - and one more of each afterwards
pub proof fn lemma_acquire_dial(w: World, r: int, s: int)
    requires wf(w), w.idle =~= Set::empty(), !w.open.contains(s), !w.serving.dom().contains(r)
    ensures wf(acquire_dial(w, r, s)), acquire_dial(w, r, s).dials == w.dials + 1
{
    let w2 = acquire_dial(w, r, s);
    assert(w2.serving.dom() =~= w.serving.dom().insert(r));
    assert forall|t: int| w.open.contains(t) implies exists|q: int| w.serving.dom().contains(q) && #[trigger] w.serving[q] == t by { assert(!w.idle.contains(t)); }
    lemma_covered(w.open, w.serving);
    assert forall|t: int| w2.open.contains(t) implies w2.idle.contains(t) || exists|q: int| w2.serving.dom().contains(q) && #[trigger] w2.serving[q] == t by {
        if t != s { let q = choose|q: int| w.serving.dom().contains(q) && #[trigger] w.serving[q] == t; assert(q != r); assert(w2.serving.dom().contains(q) && w2.serving[q] == t); }
    }
}
// FINISH: the request ends and its session goes back into the map (if it is still open)
pub proof fn lemma_finish(w: World, r: int)
    requires wf(w), w.serving.dom().contains(r)
    ensures wf(finish(w, r)), finish(w, r).dials == w.dials, finish(w, r).open == w.open
{
    let w2 = finish(w, r); let s = w.serving[r];
    assert(w2.serving.dom() =~= w.serving.dom().remove(r));
    assert forall|t: int| w2.open.contains(t) implies w2.idle.contains(t) || exists|q: int| w2.serving.dom().contains(q) && #[trigger] w2.serving[q] == t by {
        if t != s && !w.idle.contains(t) { let q = choose|q: int| w.serving.dom().contains(q) && #[trigger] w.serving[q] == t; assert(q != r); assert(w2.serving.dom().contains(q) && w2.serving[q] == t); }
    }
}
// a session closes (by itself, by its liveness monitor, or by the reaper): fewer open sessions, nothing dialled
pub proof fn lemma_dies(w: World, s: int)
    requires wf(w)
    ensures wf(dies(w, s)), dies(w, s).dials == w.dials
{
    let w2 = dies(w, s);
    if w.open.contains(s) { assert(w2.open.len() == w.open.len() - 1); } else { assert(w2.open =~= w.open); }
    assert forall|t: int| w2.open.contains(t) implies w2.idle.contains(t) || exists|q: int| w2.serving.dom().contains(q) && #[trigger] w2.serving[q] == t by {
        if !w.idle.contains(t) { let q = choose|q: int| w.serving.dom().contains(q) && #[trigger] w.serving[q] == t; assert(w2.serving.dom().contains(q) && w2.serving[q] == t); }
    }
}
// FIRST HALF of C13: when no request is running, every open session sits in the map - so a request that does not overlap with any
// other finds one (if any session is open at all) and, by lemma_acquire_reuse / create_stream's contract, is served without dialling
pub proof fn lemma_sequential_requests_find_a_session(w: World)
    requires wf(w), w.serving.dom().len() == 0, w.open.len() > 0
    ensures w.idle.len() > 0, w.idle =~= w.open
{
    assert forall|t: int| w.open.contains(t) implies w.idle.contains(t) by {
        if !w.idle.contains(t) { let q = choose|q: int| w.serving.dom().contains(q) && #[trigger] w.serving[q] == t; assert(w.serving.dom().contains(q)); assert(w.serving.dom().len() > 0) by { if w.serving.dom().len() == 0 { assert(w.serving.dom() =~= Set::empty()); } } }
    }
    assert(w.idle =~= w.open);
}
