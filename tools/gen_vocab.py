#!/usr/bin/env python3
"""Regenerate tools/vx/vocab.json from the UNCHANGED tree: per function under contract, the conversion-trait calls its extracted text contains.
Run after every commit to /repo that belongs to this work (fix: / hook:), never on a tree under test."""
import glob, json, os, sys
ROOT = os.path.dirname(os.path.dirname(os.path.abspath(__file__)))
sys.path.insert(0, os.path.join(ROOT, "tools"))
from vx import assemble as A, vocab as V
out = {}
for g in sorted(glob.glob(os.path.join(ROOT, "groups", "*.grp"))):
    name = os.path.basename(g)[:-4]
    text = A.assemble(name, canary=False)["text"]
    d = V.defined_types(text)
    for k, body in V.fn_texts(text).items():
        s = sorted(V.conversions(body, d))
        if s:
            out[k] = sorted(set(out.get(k, [])) | set(s))
json.dump(out, open(os.path.join(ROOT, "tools", "vx", "vocab.json"), "w"), indent=1, sort_keys=True)
print(len(out), "functions with conversion calls on the unchanged tree")
