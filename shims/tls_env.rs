// ---- shim tls_env: files, PEM parsing and the rustls entry points that install a server certificate (TRUSTED) ----
// Every value carries, as ghost data, the path it was read from; the contents of the files are not modelled.
pub use std::sync::Arc;
pub struct PathBuf { pub ghost id: int }
pub struct File { pub ghost path: int }
impl File {
    // fails for a missing / unreadable file
    #[verifier::external_body] pub fn open(p: &PathBuf) -> (r: io::Result<File>) ensures r is Ok ==> r->Ok_0.path == p.id { unimplemented!() }
}
pub struct BufReader { pub ghost path: int }
impl BufReader { #[verifier::external_body] pub fn new(f: File) -> (r: BufReader) ensures r.path == f.path { unimplemented!() } }
pub struct PemError;
pub struct CertificateDer { pub ghost from: int }
pub struct PrivateKeyDer { pub ghost from: int }
pub struct CertsIter { pub ghost path: int }
impl CertsIter {
    // collecting an iterator of Results: every PEM certificate section of the file in order, or the first parse error
    #[verifier::external_body]
    pub fn vx_collect_results(self) -> (r: std::result::Result<Vec<CertificateDer>, PemError>)
        ensures r is Ok ==> forall|i: int| 0 <= i < r->Ok_0@.len() ==> (#[trigger] r->Ok_0@[i]).from == self.path
    { unimplemented!() }
}
pub mod rustls_pemfile { use super::*;
    #[verifier::external_body] pub fn certs(rd: &mut BufReader) -> (r: CertsIter) ensures r.path == old(rd).path, final(rd).path == old(rd).path { unimplemented!() }
    // first private-key section of the file; Ok(None) when there is none
    #[verifier::external_body] pub fn private_key(rd: &mut BufReader) -> (r: std::result::Result<Option<PrivateKeyDer>, PemError>)
        ensures final(rd).path == old(rd).path, (r is Ok && r->Ok_0 is Some) ==> r->Ok_0->Some_0.from == old(rd).path { unimplemented!() }
}
pub trait VxOkOrS<T> { fn vx_ok_or_s(self) -> Result<T>; }
impl<T> VxOkOrS<T> for Option<T> {
    #[verifier::external_body]
    fn vx_ok_or_s(self) -> (r: Result<T>) ensures self is Some ==> r is Ok && r->Ok_0 == self->Some_0, self is None ==> r is Err { unimplemented!() }
}
// --- rustls 0.23: the ways a certificate and key get into a ServerConfig, and which of them check that they belong together
pub struct RustlsError;
pub struct ServerConfig { pub ghost chain: Seq<CertificateDer>, pub ghost key_from: int, pub ghost pair_checked: bool }
pub struct WantsVerifier;
pub struct WantsServerCert { pub provider: CryptoProvider }
pub struct SigningKey { pub ghost from: int }
pub struct KeyProvider;
pub struct CryptoProvider { pub key_provider: KeyProvider }
impl KeyProvider {
    #[verifier::external_body] pub fn load_private_key(&self, k: PrivateKeyDer) -> (r: std::result::Result<SigningKey, RustlsError>) ensures r is Ok ==> r->Ok_0.from == k.from { unimplemented!() }
}
pub struct CertifiedKey { pub ghost chain: Seq<CertificateDer>, pub ghost key_from: int, pub ghost pair_checked: bool }
impl CertifiedKey {
    // CertifiedKey::new does NOT compare the key with the certificate
    #[verifier::external_body] pub fn new(cert: Vec<CertificateDer>, key: SigningKey) -> (r: CertifiedKey) ensures r.chain == cert@, r.key_from == key.from, !r.pair_checked { unimplemented!() }
    // keys_match: Ok only when the leaf certificate's public key is the key's
    #[verifier::external_body] pub fn keys_match(&self) -> (r: std::result::Result<(), RustlsError>) { unimplemented!() }
}
pub struct SingleCertAndKey { pub ck: CertifiedKey }
impl SingleCertAndKey { pub fn from(ck: CertifiedKey) -> (r: SingleCertAndKey) ensures r.ck == ck { SingleCertAndKey { ck } } }
impl ServerConfig { #[verifier::external_body] pub fn builder() -> (r: WantsVerifier) { unimplemented!() } }
impl WantsVerifier { #[verifier::external_body] pub fn with_no_client_auth(self) -> (r: WantsServerCert) { unimplemented!() } }
impl WantsServerCert {
    pub fn crypto_provider(&self) -> (r: &CryptoProvider) { &self.provider }
    // with_single_cert / with_single_cert_with_ocsp: fail for an empty chain, an unusable key, or a key that does not match the leaf certificate
    #[verifier::external_body]
    pub fn with_single_cert(self, cert_chain: Vec<CertificateDer>, key_der: PrivateKeyDer) -> (r: std::result::Result<ServerConfig, RustlsError>)
        ensures r is Ok ==> r->Ok_0.chain == cert_chain@ && r->Ok_0.key_from == key_der.from && r->Ok_0.pair_checked && cert_chain@.len() > 0
    { unimplemented!() }
    #[verifier::external_body]
    pub fn with_single_cert_with_ocsp(self, cert_chain: Vec<CertificateDer>, key_der: PrivateKeyDer, ocsp: Vec<u8>) -> (r: std::result::Result<ServerConfig, RustlsError>)
        ensures r is Ok ==> r->Ok_0.chain == cert_chain@ && r->Ok_0.key_from == key_der.from && r->Ok_0.pair_checked && cert_chain@.len() > 0
    { unimplemented!() }
    // with_cert_resolver: installs whatever the resolver holds, unchecked
    #[verifier::external_body]
    pub fn with_cert_resolver(self, resolver: Arc<SingleCertAndKey>) -> (r: ServerConfig)
        ensures r.chain == resolver.ck.chain, r.key_from == resolver.ck.key_from, r.pair_checked == resolver.ck.pair_checked
    { unimplemented!() }
}
pub mod rustls { pub use super::RustlsError as Error; }
