"""Driver:  check <PROPERTY> [--tier quick|thorough]
exit 0: every must-hold obligation generated from /repo's current working tree was discharged
exit 1: VIOLATION line(s) printed
exit 2: UNDECIDED (lost anchor, unsupported construct, rlimit, vacuity) -- never an alarm"""
import concurrent.futures as cf
import fnmatch
import hashlib
import json
import os
import re
import sys
import time

from . import assemble as A
from . import verus as V
from .extract import Undecided

ROOT = A.ROOT
BUILD = os.path.join(ROOT, "build")


COMMON_ASSUMPTIONS = [
    "trusted base: every line listed under coverage.trusted_base (external_body / assume_specification / axiom in shims/*.rs): contracts of std, tokio, bytes, rustls and of repository objects as seen from their callers",
    "async erasure: awaited operations complete in sequence; interleavings of other tasks at await points are not modelled (rule A); a detached spawn whose body reads only moved captures is executed at the spawn point",
    "interior-mutable state is hoisted into an explicit state parameter: each call is verified as one atomic section (rule H); lock discipline is checked by ghost flags (rule L), not by a model of the scheduler",
    "machine arithmetic is NOT treated as mathematical: Verus generates overflow / truncation / index obligations for every executable operation of the extracted text; where the code wraps on purpose (fetch_add) the shim contract says wrapping_add",
    "no unsafe code occurs in any extracted unit; assume/admit occur nowhere outside shims/",
    "termination: loops that end carry a decreases clause; the accept loops and Server::listen never return by design (exec_allows_no_decreases_clause) and are specified by loop invariants",
]


def load_prop(pid):
    return json.load(open(os.path.join(ROOT, "props", pid + ".json")))


def load_known():
    p = os.path.join(ROOT, "known_findings.json")
    if not os.path.exists(p):
        return []
    return json.load(open(p))["findings"]


def matches(oid, globs):
    return any(fnmatch.fnmatchcase(oid, g) for g in globs)


MISSING = re.compile(r"cannot find value `(\w+)` in this scope")


def run_group(group, canary, rlimit, seed, tag=""):
    auto = []
    stubs = set()
    for attempt in range(5):
        r = A.assemble(group, canary=canary, auto_consts=tuple(auto), stubs=tuple(stubs))
        os.makedirs(BUILD, exist_ok=True)
        path = os.path.join(BUILD, f"{group}{'_canary' if canary else ''}{tag.replace('.', '_')}.rs")
        with open(path, "w") as f:
            f.write(r["text"])
        extra = []
        if seed:
            extra += ["--smt-option", f"smt.random_seed={seed}"]
        res = V.run_verus(path, rlimit=(3 if canary else rlimit), extra=extra, multiple_errors=(0 if canary else 50))
        cls = V.classify(res, r["linemap"], path)
        # constants the extracted text refers to but no recipe lists: pull them in from /repo and retry
        added = False
        for m in cls["infra"]:
            mm = MISSING.search(m)
            if mm and mm.group(1).isupper() or (mm and "_" in mm.group(1) and mm.group(1).upper() == mm.group(1)):
                hit = A.find_const(mm.group(1))
                if hit and (hit[0], hit[1], mm.group(1)) not in auto:
                    auto.append((hit[0], hit[1], mm.group(1)))
                    added = True
        # injected proof text that does not compile (a local it names was renamed): that function is stubbed and the group run again
        new_stubs = set(cls.get("infra_injected", ())) - stubs
        if new_stubs:
            stubs |= new_stubs
            added = True
        if not added:
            break
    return dict(group=group, canary=canary, path=path, asm=r, res=res, cls=cls)


def main(argv):
    t0 = time.time()
    if len(argv) < 2:
        print("usage: check <PROPERTY> [--tier quick|thorough]")
        return 2
    pid = argv[1]
    tier = os.environ.get("VERIF_TIER", "quick")
    if "--tier" in argv:
        tier = argv[argv.index("--tier") + 1]
    seed = int(os.environ.get("VERIF_SEED", "0") or 0)
    prop = load_prop(pid)
    known = [k for k in load_known() if pid in k["properties"]]
    known_open = {k["id"]: k for k in known if k["status"] == "open"}
    groups = prop["groups"]
    include = prop["include"]
    exclude = prop.get("exclude", [])
    rlimit = prop.get("rlimit", 20)
    jobs = []
    for g in groups:
        jobs.append((g, False, rlimit, 0, ""))
        jobs.append((g, True, rlimit, 0, ""))
        if tier == "thorough":
            for s in (seed * 3 + 1, seed * 3 + 2):
                jobs.append((g, False, rlimit * 2, s, f".s{s}"))
    results = []
    undecided = []
    replay_res, replay_out, replay_note = ({}, "", None)
    if tier == "thorough":
        replay_res, replay_out, replay_note = run_replays(pid, known)
    # a group that cannot be extracted is undecided; the other groups are still run, and a violation found in them stands
    with cf.ThreadPoolExecutor(max_workers=min(8, len(jobs))) as ex:
        futs = [ex.submit(run_group, *j) for j in jobs]
        for f in futs:
            try:
                results.append(f.result())
            except Undecided as e:
                if str(e) not in undecided:
                    undecided.append(str(e))
            except (OSError, ValueError, KeyError, IndexError, AssertionError) as e:
                m = f"extraction failed: {type(e).__name__}: {e}"
                if m not in undecided:
                    undecided.append(m)
    if undecided and not results:
        lines = replay_violation_lines(pid, replay_res, replay_out)
        for ln in lines:
            print(ln)
        rc = finish_undecided(pid, tier, seed, undecided, t0)
        return 1 if lines else rc

    main_runs = [r for r in results if not r["canary"] and "_s" not in os.path.basename(r["path"])]
    canary_runs = [r for r in results if r["canary"]]
    seed_runs = [r for r in results if not r["canary"] and "_s" in os.path.basename(r["path"])]

    obligations = {}       # oid -> info
    failed = {}            # oid -> [rendered]
    trusted = []
    fns = []
    audits = []
    solver = {}
    cmds = []
    all_obl, all_failed, all_artifact = set(), set(), set()
    for r in main_runs:
        # statement ranges whose anchors are lost: undecided for the properties that claim their obligations, nobody else's business
        for li in r["asm"].get("lost", []):
            probe = [f"{li['unit']}.{li['fn']}.body", f"{li['unit']}.{li['fn']}.x"]
            claimed = any(matches(pb, include) and not matches(pb, exclude) for pb in probe) \
                or any(pat.startswith(f"{li['unit']}.{li['fn']}.") for pat in include)
            if claimed:
                m_ = f"{li['unit']}.{li['fn']}: {li['reason']}"
                if m_ not in undecided:
                    undecided.append(m_)
        for sb in r["asm"].get("stubbed", []):
            probe = [f"{sb['unit']}.{sb['fn']}.body", f"{sb['unit']}.{sb['fn']}.x"]
            claimed = any(matches(pb, include) and not matches(pb, exclude) for pb in probe) \
                or any(pat.startswith(f"{sb['unit']}.{sb['fn']}.") for pat in include)
            if claimed:
                m_ = f"{sb['unit']}.{sb['fn']} is not checked in this run ({sb['reason']}): its contract is used by its callers, its own obligations are undecided"
                if m_ not in undecided:
                    undecided.append(m_)
        lm = r["asm"]["linemap"]
        all_obl |= set(lm["obligations"])
        all_failed |= set(r["cls"]["failed"]) | set(r["cls"]["rlimit"])
        all_artifact |= set(r["cls"].get("artifact", {}))
        for oid, info in lm["obligations"].items():
            # a named obligation inside injected proof text (tagged invariant / assert / lemma call) belongs to whoever claims the
            # function's body obligations
            via_body = info.get("kind") == "hint" and matches(f"{info['unit']}.{info['fn']}.body", include)
            if (matches(oid, include) or via_body) and not matches(oid, exclude):
                obligations[oid] = dict(info, group=r["group"])
        for oid, msgs in r["cls"]["failed"].items():
            if oid in obligations or (matches(oid, include) and not matches(oid, exclude)):
                failed.setdefault(oid, []).extend(msgs)
        for oid, msgs in r["cls"]["rlimit"].items():
            if matches(oid, include) and not matches(oid, exclude):
                undecided.append(f"rlimit exceeded on {oid}")
        # proof artifacts: only when NO program-level / contract obligation of the same function fails
        for fnid, msgs in r["cls"].get("artifact", {}).items():
            if not matches(fnid + ".body", include) or matches(fnid + ".body", exclude):
                continue
            if any(o.startswith(fnid + ".") for o in r["cls"]["failed"]):
                continue
            first = msgs[0].split("\n")
            loc = next((x.strip() for x in first if "-->" in x), "")
            undecided.append(f"injected proof text of {fnid} no longer verifies ({first[0].strip()} {loc}): brittle proof or changed behaviour, not decidable from this failure")
        # infrastructure errors anywhere in the group make every result of the group unreliable
        for m in r["cls"]["infra"]:
            undecided.append(f"[{r['group']}] {m}")
        trusted += [f"{k}:{n}: {txt}" for (ln, k, n, txt) in lm["trusted"]]
        for fi in r["asm"]["fns"]:
            fns.append({"unit": fi.unit, "fn": fi.name, "source": f"{fi.source}:{fi.line0}-{fi.line1}", "sha256_16": fi.sha, "edits": fi.audit})
        audits += r["asm"]["audit"]
        solver.update({f"{r['group']}::{k}": v for k, v in V.fn_times(r["res"]).items() if not k.startswith("vstd") and not k.startswith("core::") and not k.startswith("alloc::")})
        cmds.append(r["res"]["cmd"])
        if r["res"]["json"] is None:
            undecided.append(f"[{r['group']}] verus gave no result")
    # seeds (thorough): a must-hold obligation that flips under another seed is brittle -> undecided, not an alarm
    for r in seed_runs:
        for oid in r["cls"]["failed"]:
            if oid in obligations and oid not in failed and not obligations[oid].get("known"):
                undecided.append(f"brittle: {oid} fails under seed variation only")
        for m in r["cls"]["infra"]:
            undecided.append(f"[{r['group']} seed run] {m}")
    # an obligation id that failed but is not in the table (e.g. tag lost) is attributed to the fn body
    for oid in list(failed):
        if oid not in obligations:
            obligations[oid] = {"kind": "body", "line": 0, "known": None, "unit": oid.split(".")[0], "fn": oid.split(".")[1] if "." in oid else "", "group": "?"}

    # vacuity: every unit fn with a contract must have its canary clause rejected
    canaries = {"expected": 0, "rejected": 0, "vacuous": []}
    for r in canary_runs:
        lm = r["asm"]["linemap"]
        for m in r["cls"]["infra"]:
            undecided.append(f"[{r['group']} canary run] {m}")
        if r["cls"]["infra"]:
            continue
        stub_set = {f"{sb['unit']}.{sb['fn']}" for rr in results for sb in rr["asm"].get("stubbed", [])}
        for oid in lm["obligations"]:
            if oid.endswith(".vx_canary"):
                base = oid[:-len(".vx_canary")]
                if base in stub_set:
                    continue        # not checked in this run (already reported as undecided)
                if not any(o.startswith(base + ".") for o in obligations):
                    continue
                canaries["expected"] += 1
                if oid in r["cls"]["failed"]:
                    canaries["rejected"] += 1
                elif oid in r["cls"]["rlimit"] or (base + ".body") in r["cls"]["rlimit"] or any(k.startswith(base + ".") for k in r["cls"]["rlimit"]):
                    canaries["rejected"] += 1  # could not prove false within the limit (reported on the function as a whole): not vacuous
                else:
                    canaries["vacuous"].append(oid)
    for v in canaries["vacuous"]:
        undecided.append(f"vacuity guard: `ensures false` was accepted for {v} (contradictory requires/shims or unreachable exit)")

    if not obligations:
        undecided.append("no obligations generated")
    expected_n = prop.get("min_obligations", 1)
    if len(obligations) < expected_n:
        undecided.append(f"obligation count {len(obligations)} below the recorded minimum {expected_n} (lost contract?)")

    # a clause tagged with a finding is expected to fail only while that finding is OPEN; once fixed it must hold
    must = {o: i for o, i in obligations.items() if not (i.get("known") and i.get("known") in known_open)}
    expfail = {o: i for o, i in obligations.items() if i.get("known") and i.get("known") in known_open}
    violations = []
    known_lines = []
    for oid, msgs in failed.items():
        info = obligations[oid]
        fid = info.get("known")
        if fid and fid in known_open:
            known_lines.append((fid, oid, known_open[fid]["what"]))
            continue
        violations.append((oid, msgs))

    # unspecified std conversions (tools/vx/vocab.py): a function that calls From / Into / TryFrom / Default on a type for which vstd has
    # no specification - and did not do so on the unchanged tree - cannot be decided from failed obligations: Verus treats the result of
    # such a call as an arbitrary value
    from . import vocab as VOC
    base_vocab = VOC.load()
    fn_conv = {}
    for r in main_runs:
        text = r["asm"]["text"]
        dts = VOC.defined_types(text)
        for k, body in VOC.fn_texts(text).items():
            fn_conv[k] = VOC.conversions(body, dts)
    kept_v = []
    for oid, msgs in violations:
        key = ".".join(oid.split(".")[:2])
        new_calls = sorted(fn_conv.get(key, set()) - set(base_vocab.get(key, [])))
        if new_calls:
            m_ = (f"{key} calls {', '.join(new_calls)}, which the unchanged tree does not: vstd may leave the result of such a conversion "
                  f"unspecified (an arbitrary value), so the failed obligation {oid} does not decide the property")
            if m_ not in undecided:
                undecided.append(m_)
        else:
            kept_v.append((oid, msgs))
    violations = kept_v

    # alternative mechanisms (props: "alternatives"): a requirement of the property that the code may meet in more than one way.
    # Each mechanism is a set of obligations; when one mechanism is fully discharged (and its structural premise holds), failures of
    # obligations that belong only to the OTHER mechanisms of the same requirement are not violations of the property
    alt_notes = []
    for alt in prop.get("alternatives", []):
        holds = []
        for mech in alt["mechanisms"]:
            oids = mech["obligations"]
            ok = all(o in all_obl for o in oids) and not any(o in all_failed for o in oids) \
                and not any(o.rsplit(".", 1)[0] in all_artifact for o in oids) and structural_premise_holds(mech.get("premise"))
            holds.append(ok)
        if not any(holds):
            continue
        good = {o for mech, ok in zip(alt["mechanisms"], holds) if ok for o in mech["obligations"]}
        excused = {o for mech, ok in zip(alt["mechanisms"], holds) if not ok for o in mech["obligations"]} - good
        kept = []
        for oid, msgs in violations:
            if oid in excused:
                which = next(mech["name"] for mech, ok in zip(alt["mechanisms"], holds) if ok)
                alt_notes.append(f"{oid} is not discharged, but `{alt['requirement']}` is still met by the mechanism `{which}` (discharged): not a violation")
            else:
                kept.append((oid, msgs))
        violations = kept

    restated = restated_contracts(groups, all_obl, all_failed, undecided)

    if replay_note and not replay_note.startswith("replays skipped"):
        undecided.append(replay_note)

    if undecided and not violations and "FAILED" not in replay_res.values():
        return finish_undecided(pid, tier, seed, undecided, t0)

    os.makedirs(os.path.join(BUILD, "replay"), exist_ok=True)
    out_lines = []
    rl = replay_violation_lines(pid, replay_res, replay_out)
    out_lines += rl
    replay_violations = len(rl)
    for oid, msgs in violations:
        info = obligations[oid]
        rp = os.path.join(BUILD, "replay", f"{pid}-{re.sub(r'[^A-Za-z0-9_.-]', '_', oid)}.json")
        unit_fns = [f for f in fns if f["unit"] == info["unit"]]
        json.dump({"property": pid, "failed_obligation": oid, "kind": info["kind"],
                   "meaning": "this obligation is discharged on the unchanged tree and is not discharged on the current working tree",
                   "functions": unit_fns, "verifier": "verus 0.2026.09.13 (z3)", "verifier_output": msgs,
                   "assembled_file": [r["path"] for r in main_runs if r["group"] == info.get("group")],
                   "failing_input": None, "note": "Verus gives no counterexample; no-failing-input-found"},
                  open(rp, "w"), indent=1)
        out_lines.append(f"VIOLATION property={pid} replay={rp} obligation={oid} no-failing-input-found")
    seen = set()
    for fid, oid, what in known_lines:
        if fid in seen:
            continue
        seen.add(fid)
        out_lines.append(f"KNOWN-FINDING: property={pid} {fid} {what} (failing obligation {oid})")

    discharged = [o for o in must if o not in failed]
    wall = time.time() - t0
    samples = []
    for o in sorted(obligations):
        st = "discharged" if o not in failed else ("known-finding" if obligations[o].get("known") in known_open and obligations[o].get("known") else "FAILED")
        samples.append({"obligation": o, "kind": obligations[o]["kind"], "status": st})
    ev = {
        "property_id": pid, "tier": tier, "seed": seed, "level": "proof",
        "coverage": {
            "obligations": len(must), "discharged": len(discharged),
            "expected_fail_obligations": [{"obligation": o, "finding": i["known"], "status": "fails" if o in failed else "verifies (finding no longer present)"} for o, i in expfail.items()],
            "checker_cmd": " ; ".join(cmds),
            "backend": "verus 0.2026.09.13.671956e / z3 (bundled)",
            "trusted_base": sorted(set(trusted)) + prop.get("trusted_extra", []),
            "restated_contracts": restated,
            "functions_under_contract": fns,
            "extraction_audit": [{k: a[k] for k in ("unit", "item", "tokens_before", "tokens_after", "counts")} for a in audits],
            "solver_time_ms": {k: v["ms"] for k, v in solver.items()},
            "solver_total_ms": sum(v["ms"] for v in solver.values()),
            "vacuity_canaries": {"expected": canaries["expected"], "rejected": canaries["rejected"]},
            "samples": samples,
            "exhaustive": False,
            "explanation": "each obligation is discharged by Verus/Z3 for all inputs and all loop iterations (no bound); "
                           "the verified text is extracted from /repo's working tree on this run with the edit classes listed in extraction_audit",
        },
        "assumptions": prop.get("assumptions", []) + COMMON_ASSUMPTIONS,
        "wall_s": round(wall, 2),
        "violations": len(violations) + replay_violations,
    }
    if tier == "thorough":
        ev["coverage"]["finding_witness_replays"] = {"results": replay_res, "note": replay_note,
            "meaning": "tests of /verif/replay that run the concrete witnesses of this property's repaired findings against the real crate built from /repo's working tree"}
    os.makedirs(os.path.join(ROOT, "evidence"), exist_ok=True)
    json.dump(ev, open(os.path.join(ROOT, "evidence", pid + ".json"), "w"), indent=1)
    for ln in out_lines:
        print(ln)
    print(f"{pid}: obligations={len(must)} discharged={len(discharged)} expected-fail={len(expfail)} "
          f"violations={len(violations)} canaries={canaries['rejected']}/{canaries['expected']} wall={wall:.1f}s")
    for n_ in alt_notes:
        print("note (alternative mechanism):", n_)
    if undecided:
        for u in undecided:
            print("note (undecided part):", u)
    return 1 if (violations or replay_violations) else 0


_SRC_TABLES = {}


def restated_contracts(groups, all_obl, all_failed, undecided):
    """shims/RESTATED.json: caller-side shims that restate a contract proved in another group.  For every entry whose shim belongs to one
    of this property's groups: the source obligations must still exist in the text extracted from /repo now (their group is assembled,
    not re-verified, unless it is one of this property's groups - then they must also be discharged in this run)."""
    path = os.path.join(ROOT, "shims", "RESTATED.json")
    if not os.path.exists(path):
        return []
    used = set()
    for g in groups:
        for ln in open(os.path.join(ROOT, "groups", g + ".grp")):
            ln = ln.split()
            if len(ln) == 2 and ln[0] == "shim":
                used.add(ln[1])
    out = []
    for e in json.load(open(path))["entries"]:
        if e["shim"] not in used:
            continue
        sg = e["source_group"]
        if sg in groups:
            table, mode = all_obl, "verified in this run"
        else:
            if sg not in _SRC_TABLES:
                try:
                    _SRC_TABLES[sg] = set(A.assemble(sg, canary=False)["linemap"]["obligations"])
                except Exception as ex:      # the source group cannot be extracted from the current tree
                    _SRC_TABLES[sg] = None
                    undecided.append(f"restated contracts: source group {sg} cannot be assembled ({type(ex).__name__}: {ex})")
            table, mode = _SRC_TABLES[sg], f"present in the text extracted now; verified by the checks that own group {sg}"
        if table is None:
            continue
        for oid in e["restates"]:
            if oid not in table:
                undecided.append(f"restated contract {e['shim']}::{e['fn']} has lost its source obligation {oid} (group {sg})")
                status = "LOST"
            elif sg in groups and oid in all_failed:
                status = "source obligation not discharged in this run"
            else:
                status = mode
            out.append({"shim": f"{e['shim']}::{e['fn']}", "restates": oid, "source_group": sg, "status": status, "abstraction": e.get("abstraction", "")})
    return out


def structural_premise_holds(premise):
    """premise of an alternative mechanism that is a fact about the program text, e.g. {"single_call_site": {"file": "src/session/session.rs",
    "callee": "write_with_padding", "caller": "write_frame"}}: every call of `callee` in the file is inside `caller`"""
    if not premise:
        return True
    sc = premise.get("single_call_site")
    if sc:
        try:
            from . import tok as T
            from . import extract as X
            toks, _ = T.tokenize(open(os.path.join(A.REPO, sc["file"])).read(), keep_comments=False)
            _, _, bo, bc = X.find_fn(toks, sc["caller"], sc.get("impl"))
        except Exception:
            return False
        n_in, n_out = 0, 0
        for k in range(len(toks) - 2):
            if toks[k].text == "." and toks[k + 1].text == sc["callee"] and toks[k + 2].text == "(":
                if bo <= k <= bc:
                    n_in += 1
                else:
                    n_out += 1
        return n_in >= 1 and n_out == 0
    return False


def run_replays(pid, known):
    """thorough tier: the concrete witnesses of this property's FIXED findings are replayed on the real crate
    (/verif/replay, path dependency on /repo's working tree).  -> (results {test: 'ok'|'FAILED'}, raw output, note)"""
    import subprocess
    names = sorted({k["id"].lower().replace("-", "_") for k in known if k["status"] == "fixed"})
    if not names:
        return {}, "", None
    if A.REPO != "/repo":
        return {}, "", "replays skipped: the replay crate depends on /repo by path and VERIF_REPO points elsewhere"
    cmd = ["cargo", "test", "--offline", "--manifest-path", os.path.join(ROOT, "replay", "Cargo.toml"),
           "--test", "findings", "--test", "frontends", "--test", "c19", "--test", "c18", "--test", "c11", "--test", "c12", "--test", "c14", "--test", "c08", "--test", "c14d", "--test", "c13", "--test", "c19b", "--test", "c07b", "--"] + names + ["--test-threads", "2"]
    env = dict(os.environ, CARGO_NET_OFFLINE="true")
    try:
        pr = subprocess.run(cmd, capture_output=True, text=True, timeout=1500, env=env)
    except subprocess.TimeoutExpired:
        return {}, "", "replays timed out"
    out = pr.stdout + pr.stderr
    res = {}
    for m in re.finditer(r"^test (f_c\d+_\w+) \.\.\. (ok|FAILED)", out, re.M):
        res[m.group(1)] = m.group(2)
    # the replays use real sockets and timers: a failure must reproduce when the test is run again on its own
    for tname in [t for t, st in res.items() if st == "FAILED"]:
        try:
            p2 = subprocess.run(cmd[:cmd.index("--")] + ["--", tname, "--exact", "--test-threads", "1"], capture_output=True, text=True, timeout=600, env=env)
        except subprocess.TimeoutExpired:
            continue
        if re.search(r"^test " + re.escape(tname) + r" \.\.\. ok", p2.stdout + p2.stderr, re.M):
            res[tname] = "ok"
            out += f"\n[{tname}: failed once, passed when re-run alone: counted as ok]\n"
    note = None
    if not res:
        note = "replay crate did not build or ran no test: " + out[-400:].replace("\n", " ")
    return res, out, note


def replay_violation_lines(pid, replay_res, replay_out):
    """a fixed finding whose concrete witness fails again on the real code: violation WITH a failing input"""
    lines = []
    os.makedirs(os.path.join(BUILD, "replay"), exist_ok=True)
    for tname, st in sorted(replay_res.items()):
        if st != "FAILED":
            continue
        rp = os.path.join(BUILD, "replay", f"{pid}-replay-{tname}.txt")
        m = re.search(r"---- " + re.escape(tname) + r" stdout ----(.*?)(?=\n---- |\nfailures:)", replay_out, re.S)
        with open(rp, "w") as f:
            f.write(f"property {pid}: the witness of a repaired finding fails again on the real code\n"
                    f"rerun: cargo test --offline --manifest-path /verif/replay/Cargo.toml {tname}\n"
                    f"(the failing input is the one constructed by the test {tname} in /verif/replay/tests)\n\n" + (m.group(1) if m else replay_out[-3000:]))
        lines.append(f"VIOLATION property={pid} replay={rp} finding-witness={tname}")
    return lines


def finish_undecided(pid, tier, seed, undecided, t0):
    for u in undecided[:40]:
        print(f"UNDECIDED property={pid}: {u}")
    # evidence still written, stating that nothing was decided
    ev = {"property_id": pid, "tier": tier, "seed": seed, "level": "other",
          "coverage": {"explanation": "UNDECIDED: " + " | ".join(undecided)[:4000], "evaluations": 0, "distinct_nontrivial": 0},
          "assumptions": [], "wall_s": round(time.time() - t0, 2), "violations": 0}
    os.makedirs(os.path.join(ROOT, "evidence"), exist_ok=True)
    json.dump(ev, open(os.path.join(ROOT, "evidence", pid + ".json"), "w"), indent=1)
    return 2


if __name__ == "__main__":
    sys.exit(main(sys.argv))
