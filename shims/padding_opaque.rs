// ---- shim PaddingFactory (opaque stand-in used by units that only pass it along or draw from it).
// `may_draw(pkt, sizes)`: the size list `sizes` is one the scheme line `pkt` permits (defined by unit U20's
// contract where that unit is in the group; here uninterpreted, i.e. callers are verified for EVERY vector).
#[verifier::external_body]
pub struct PaddingFactory { _p: () }
impl PaddingFactory {
    pub uninterp spec fn may_draw(&self, pkt: u32, sizes: Seq<i32>) -> bool;
    pub uninterp spec fn stop_spec(&self) -> u32;
    #[verifier::external_body]
    pub fn generate_record_payload_sizes(&self, pkt: u32, dl: &mut Ghost<Seq<(u32, Seq<i32>)>>) -> (r: Vec<i32>)
        ensures self.may_draw(pkt, r@), final(dl)@ == old(dl)@.push((pkt, r@))   // dl: ghost log of every draw (line, sizes)
    { unimplemented!() }
    #[verifier::external_body]
    pub fn stop(&self) -> (r: u32) ensures r == self.stop_spec() { unimplemented!() }
}
pub use std::sync::Arc;
