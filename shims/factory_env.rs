// ---- shim factory_env: what padding/factory.rs refers to (TRUSTED): string primitives as uninterpreted functions ----
pub use std::sync::Arc;
pub const CHECK_MARK: i32 = -1;
pub uninterp spec fn spec_trim(s: Seq<char>) -> Seq<char>;
pub assume_specification [str::trim] (s: &str) -> (r: &str) ensures r@ == spec_trim(s@);
#[verifier::external_body]
pub fn vx_str_split_collect<'a>(s: &'a str, c: char) -> (r: Vec<&'a str>) { s.split(c).collect() }
#[verifier::external_body]
pub fn vx_str_split_once<'a>(s: &'a str, c: char) -> (r: Option<(&'a str, &'a str)>) { s.split_once(c) }
pub uninterp spec fn spec_parse_i64(s: Seq<char>) -> Option<i64>;
#[verifier::external_body]
pub fn vx_parse_i64(s: &&str) -> (r: std::result::Result<i64, ()>) ensures (r is Ok) == (spec_parse_i64(s@) is Some), r is Ok ==> r->Ok_0 == spec_parse_i64(s@)->Some_0 { unimplemented!() }
pub uninterp spec fn spec_parse_u32(s: Seq<char>) -> Option<u32>;
#[verifier::external_body]
pub fn vx_parse_u32(s: &&String) -> (r: std::result::Result<u32, ()>) ensures (r is Ok) == (spec_parse_u32(s@) is Some), r is Ok ==> r->Ok_0 == spec_parse_u32(s@)->Some_0 { unimplemented!() }
// rand::random_range(lo..=hi) panics on an empty range
#[verifier::external_body]
pub fn vx_random_range_incl(lo: i64, hi: i64) -> (x: i64)
    requires lo <= hi ensures lo <= x <= hi
{ unimplemented!() }
pub assume_specification<T, E> [std::result::Result::<T, E>::unwrap_or] (r: std::result::Result<T, E>, d: T) -> (x: T)
    ensures x == (match r { Ok(v) => v, Err(_) => d });
#[verifier::external_body]
pub fn vx_int_to_string(n: u64) -> (r: String) { n.to_string() }
pub struct StringMap { pub _p: () }
impl StringMap {
    pub uninterp spec fn lookup(&self, k: Seq<char>) -> Option<Seq<char>>;
    pub uninterp spec fn parse_spec(data: Seq<u8>) -> StringMap;
    #[verifier::external_body] pub fn from_bytes(data: &[u8]) -> (r: Self) ensures r == Self::parse_spec(data@) { unimplemented!() }
    #[verifier::external_body] pub fn get(&self, key: &str) -> (r: Option<&String>) ensures (r is Some) == (self.lookup(key@) is Some), r is Some ==> r->Some_0@ == self.lookup(key@)->Some_0 { unimplemented!() }
}
// StringMap derives PartialEq: equal as parsed key/value maps (two different texts may parse to equal maps)
impl PartialEq for StringMap { #[verifier::external_body] fn eq(&self, o: &StringMap) -> (r: bool) ensures r == (*self == *o) { unimplemented!() } }
impl vstd::std_specs::cmp::PartialEqSpecImpl for StringMap {
    open spec fn obeys_eq_spec() -> bool { true }
    open spec fn eq_spec(&self, o: &StringMap) -> bool { *self == *o }
}
pub trait VxMapErrS<T> { fn vx_map_err_s(self) -> std::result::Result<T, String>; }
impl<T, E> VxMapErrS<T> for std::result::Result<T, E> {
    #[verifier::external_body]
    fn vx_map_err_s(self) -> (r: std::result::Result<T, String>)
        ensures self is Ok ==> r is Ok && r->Ok_0 == self->Ok_0, self is Err ==> r is Err
    { unimplemented!() }
}
pub trait VxOkOrS<T> { fn vx_ok_or_s(self) -> std::result::Result<T, String>; }
impl<T> VxOkOrS<T> for Option<T> {
    #[verifier::external_body]
    fn vx_ok_or_s(self) -> (r: std::result::Result<T, String>)
        ensures self is Some ==> r is Ok && r->Ok_0 == self->Some_0, self is None ==> r is Err
    { unimplemented!() }
}
pub mod md5 { pub struct Digest; #[verifier::external_body] pub fn compute(b: &[u8]) -> Digest { Digest } }
#[verifier::external_body]
pub fn vx_slice_to_vec(s: &[u8]) -> (r: Vec<u8>) ensures r@ == s@ { s.to_vec() }
// std::sync::OnceLock: written at most once (hoisted static: &mut instead of interior mutability)
pub struct OnceLock<T> { pub v: Option<T> }
impl<T> OnceLock<T> {
    pub fn set(&mut self, value: T) -> (r: std::result::Result<(), T>)
        ensures old(self).v is None ==> r is Ok && final(self).v == Some(value), old(self).v is Some ==> r is Err && final(self).v == old(self).v
    { if self.v.is_none() { self.v = Some(value); Ok(()) } else { Err(value) } }
}
// a scheme is acceptable iff it has a `stop` entry that parses as u32
pub open spec fn parseable(raw: Seq<u8>) -> bool {
    StringMap::parse_spec(raw).lookup("stop"@) is Some && spec_parse_u32(StringMap::parse_spec(raw).lookup("stop"@)->Some_0) is Some
}
// the process-wide default cell (static DEFAULT_FACTORY behind default_cell()), hoisted into a parameter
pub struct DefaultCell { pub v: Arc<PaddingFactory> }
